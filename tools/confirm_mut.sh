#!/usr/bin/env bash
# usage: tools/confirm_mut.sh <agent OUT/i dir> <seeded id> <property> <pkgdir for demo>
# Confirms in a scratch worktree of /repo HEAD: patch applies, builds, existing suite passes, demo passes clean and
# fails with the patch. On success stores /verif/seeded/<id>/{patch.diff,demo_test.go,README.md,meta.json}.
set -u
SRC="$1"; ID="$2"; PROP="$3"; PKG="$4"
export GOFLAGS=-mod=mod GOPROXY=off
WT=/tmp/confirm/$ID
rm -rf "$WT"; git -C /repo worktree prune; mkdir -p /tmp/confirm
git -C /repo worktree add -q --detach "$WT" HEAD || exit 2
cd "$WT" || exit 2
res() { echo "$1"; }
TESTNAME=$(grep -o 'func Test[A-Za-z0-9_]*' "$SRC/demo_test.go" | head -1 | sed 's/func //')
cp "$SRC/demo_test.go" "$PKG/zz_demo_test.go"
clean_demo=fail; go test -vet=off -count=1 -run 'TestDemo|TestC[0-9]' "./$PKG/" >/tmp/confirm/$ID.clean.log 2>&1 && clean_demo=pass
rm "$PKG/zz_demo_test.go"
applies=no
if git apply --3way "$SRC/patch.diff" 2>/tmp/confirm/$ID.apply.log || git apply "$SRC/patch.diff" 2>>/tmp/confirm/$ID.apply.log; then applies=yes; fi
git reset -q
git diff > /tmp/confirm/$ID.patch.rebased
build=fail; go build ./... >/tmp/confirm/$ID.build.log 2>&1 && build=pass
suite=fail; go test -vet=off -count=1 ./... >/tmp/confirm/$ID.suite.log 2>&1 && suite=pass
if [ $suite = fail ] && grep -q 'TestSpec_DFA' /tmp/confirm/$ID.suite.log && [ "$(grep -c '^--- FAIL' /tmp/confirm/$ID.suite.log)" = 1 ]; then
  # known flaky test on the pinned tree (map order): retry once
  go test -vet=off -count=1 ./... >/tmp/confirm/$ID.suite.log 2>&1 && suite=pass
fi
cp "$SRC/demo_test.go" "$PKG/zz_demo_test.go"
mut_demo=pass; go test -vet=off -count=1 -run 'TestDemo|TestC[0-9]' "./$PKG/" >/tmp/confirm/$ID.mut.log 2>&1 || mut_demo=fail
cd /; git -C /repo worktree remove --force "$WT"
echo "$ID: applies=$applies build=$build suite=$suite demo_clean=$clean_demo demo_mutated=$mut_demo"
if [ $applies = yes ] && [ $build = pass ] && [ $suite = pass ] && [ $clean_demo = pass ] && [ $mut_demo = fail ]; then
  D=/verif/seeded/$ID; mkdir -p "$D"
  cp /tmp/confirm/$ID.patch.rebased "$D/patch.diff"; cp "$SRC/demo_test.go" "$D/demo_test.go"; cp "$SRC/README.md" "$D/README.md"
  python3 - "$ID" "$PROP" "$PKG" "$(git -C /repo rev-parse --short HEAD)" <<'PY'
import json,sys,re
i,prop,pkg,head=sys.argv[1:5]
readme=open('/verif/seeded/%s/README.md'%i).read()
meta={"id":i,"property":prop,"source":"independent sub-agent given only the property text and a scratch worktree",
 "demo":{"file":"demo_test.go","copy_into":pkg,"run":"go test -vet=off -count=1 -run 'TestDemo|TestC[0-9]' ./%s/"%pkg},
 "confirmed_on_repo_commit":head,
 "confirmed":{"patch_applies":True,"builds":True,"existing_suite_passes":True,"demo_passes_without_change":True,"demo_fails_with_change":True},
 "needs_to_manifest":"see README.md","detected_by":"(filled in by tools/runseeded.sh)"}
json.dump(meta,open('/verif/seeded/%s/meta.json'%i,'w'),indent=1)
PY
  echo "  kept as /verif/seeded/$ID"
else
  echo "  NOT kept (logs in /tmp/confirm/$ID.*.log)"
fi

#!/usr/bin/env bash
# quick tier of every check at several seeds; prints one line per run and any alarm
cd "$(dirname "$0")/.." || exit 2
for seed in ${SEEDS:-2 3 4}; do
  for id in ${IDS:-C01 C02 C03 C04 C05 C06 C07 C08 C09 C10 C11 C12 C13 C14 C15 C16 C17 C18 C19 C20}; do
    out=$(VERIF_SEED=$seed ./check $id quick 2>&1); rc=$?
    echo "seed=$seed $id exit=$rc $(echo "$out" | grep 'tier=' | sed 's/.*evaluations/evaluations/' | cut -c1-150)"
    [ $rc -ne 0 ] && echo "$out" | grep -E 'VIOLATION|INCONCLUSIVE|sig=|observed' | head -8 | cut -c1-300
  done
done

#!/usr/bin/env bash
# usage: tools/trymut.sh <patch.diff> <ID> [<ID>...]   -- applies the patch to /repo, runs the quick checks, reverts.
set -u
P="$1"; shift
cd /repo || exit 2
if [ -n "$(git status --porcelain)" ]; then echo "repo not clean"; exit 2; fi
if ! git apply "$P" 2>/tmp/trymut.err; then
  if ! git apply "$P" 2>>/tmp/trymut.err; then echo "PATCH DOES NOT APPLY"; cat /tmp/trymut.err; git checkout -- . ; exit 3; fi
fi
git reset -q 2>/dev/null
for id in "$@"; do
  echo "=== $id on $(basename $(dirname $P))"
  (cd /verif && timeout 900 ./check "$id" "${TIER:-quick}" 2>&1 | grep -E 'VIOLATION|KNOWN|INCONCLUSIVE|tier=' | head -${LINES_MAX:-6})
done
git -C /repo checkout -- . ; git -C /repo status --porcelain

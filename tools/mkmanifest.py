#!/usr/bin/env python3
"""Regenerates /verif/MANIFEST.json from the table below (kept valid at all times)."""
import json, sys

CLAIMED = {
 # id: (category, technique, text, note, design_ref)
 "C02": ("exploration", "runtime monitoring: differential reference-model oracle (complete language equality by product walk) over observed automata of each pipeline stage",
         "Every generated pattern is run through the real token pipeline (nfa.Parse, ToDFA, Minimize, EliminateDeadStates, ReindexStates, Spec.DFA) and each observed automaton is compared with an independent reference automaton by a complete product-walk decision (not string sampling). Held on the patterns generated; exhaustive for the enumerated small-tree sub-spaces. Metamorphic families where no reference meaning exists: \\p{X} vs \\P{X} complements; repetition counts no machine integer holds (probed in a memory-capped child).",
         "Trusted base: the harness' reference reading of docs/5-definitions.md (R2: Thompson + subset construction, 600 lines, no shared code with emerge or moorara/algo). Inputs not generated are not covered.", "5/C02"),
 "C10": ("exploration", "runtime monitoring: three-way differential oracle (followpos route vs NFA route vs reference automaton), complete language equality per pattern",
         "Each generated pattern is compiled by both real routes; the two observed DFAs and the reference automaton are compared pairwise by product walk. Population is aimed at nullable operands, nullable wholes and repetition ranges.",
         "Trusted base: R2 reference automata. Bounded by the generated pattern population.", "5/C10"),
 "C09": ("exploration", "runtime monitoring: reference-grammar oracle (complete CFG recogniser of the documented pattern grammar) over observed accept/reject of both real entry points",
         "All strings to a length bound over a 24-symbol metacharacter-rich alphabet, canonical prints, meaningless-range injections and single-character edits are fed to nfa.Parse and regex ast.Parse; acceptance must imply sentencehood, documented unambiguous forms must be accepted, meaningless ranges must be rejected naming the range, both entry points must agree.",
         "Trusted base: transcription of the documented pattern grammar (ref_patgram.go, 100 lines) with a memoised all-parses recogniser.", "5/C09"),
 "C04": ("exploration", "runtime monitoring: exhaustive table observation (every ACTION/GOTO entry) against an independently built LALR(1) table, regeneration diff, and differential reference-parser oracle over observed parses of all token sequences to a bound",
         "Every table entry is observed through parser.ACTION/GOTO and compared up to state renaming with an independent LALR(1) construction of the documented grammar and precedence list; the generator is rebuilt and run twice and diffed with the checked-in file; the real Parser.Parse is driven with all token-kind sequences to length 9 (quick) / 12 (thorough) plus long/deep and random sentences, and accept/reject, error index and the full callback sequence are compared with a recursive-descent reader written from the documentation.",
         "Trusted base: R4 (LALR construction, 450 lines) and R1 (recursive-descent reader). Sequences longer than the bound are sampled, not enumerated.", "5/C04"),
 "C05": ("exploration", "runtime monitoring: exhaustive transition observation (61M state x code point pairs through an export shim) against a reference product automaton, plus a reference-scanner oracle over observed NextToken streams",
         "All (reachable state, code point) pairs of the coded scanner table are observed and bisimulated against the documented token automata; tens of thousands of generated texts are scanned by the real lexer and every token (kind, lexeme, offset, line, column) and the final EOF/lexical error position are compared with the reference scanner.",
         "Trusted base: R1 scanner components transcribed from the token table. If the shim no longer builds the exhaustive part is skipped and the evidence says so. One-letter TOKEN is masked (documents disagree).", "5/C05"),
 "C18": ("exploration", "runtime monitoring: callback-trace oracle (recorded token/production/evaluation callbacks vs the post-order of a reference derivation) with error injection at every step",
         "The real lexer+parser is run on generated specifications with recording callbacks; the log, the evaluation arguments (values and positions) and the final value are compared with the reference reader's derivation, also with callbacks that return nil results; for every step of sampled runs a sentinel error is injected and the parse must stop there and return it.",
         "Trusted base: R1 reference reader (cross-validated against the tables by C04).", "5/C18"),
 "C01": ("exploration", "runtime monitoring: differential reference-model oracle (bounded-language least fixpoints of the EBNF text vs of the observed productions) over observed spec.Parse results",
         "Each generated specification is parsed by the real spec.Parse; for start and every user rule the set of terminal strings up to length k derivable from the observed productions is compared with the set the EBNF operator tree denotes (independent reader + fixpoint evaluator); plus structural invariants of synthesised non-terminals. Exhaustive for small operator trees and for the operator-selection families.",
         "Trusted base: R1 reader and R3 bounded-language evaluator. Equality is up to length k (adaptive, at most 5 quick / 7 thorough). Open findings D2a/D2b (name collisions) are listed in known_findings.json.", "5/C01"),
 "C20": ("exploration", "runtime monitoring: reference-reader oracle over observed diagnostics (first offending element, position, tail independence)",
         "Every single-token edit and truncation of generated specifications, and stray/unterminated lexical elements at every gap, are fed to spec.Parse, ebnf ast.Parse and Parser.Parse (CLI for a sample); the reported file:line:col must be that of the first offending element per the reference reader, early ends must not blame an earlier token, and replacing the tail (also by text with undecodable bytes) must not change the message; undecodable bytes after every kind of separator must be reported at their own line and column; an earlier well-formedness defect must not hide the syntax position (spec.Parse).",
         "Trusted base: R1 reader (its error index is cross-validated against the tables by C04).", "5/C20"),
 "C06": ("exploration", "runtime monitoring: differential oracle over observed tables - emerge's table is executed by an independent shift-reduce driver on all strings to a bound and compared with the bounded language / an independent LALR(1) table / a Pratt parser",
         "For textbook grammar families, random grammars and operator grammars the real LALRParsingTable() is observed: accepted tables are executed on every terminal string up to a length bound (accept must equal membership in the language of the text as written, or the verdict of the reference table when directives decided conflicts), operator-grammar parses are compared with a Pratt parser, and accept/reject is compared with an independent LALR(1) construction using the documented resolution rule; rejections must report conflicts the grammar has and are cross-checked against an independent EBNF-to-CFG translation of the text; accepted tables are also walked in lock step with the reference table (when the walk succeeds the verdict covers every string, not only those up to the bound).",
         "Trusted base: R4 LALR construction + driver, R3 bounded languages, Pratt parser, the independent translation. Grammars that are degenerate AS WRITTEN (cyclic / unproductive non-terminals) and >2-way conflicts are masked; a degenerate production set for a non-degenerate text is a violation.", "5/C06"),
 "C07": ("exploration", "runtime monitoring: reference-model oracle over observed accept/reject, parsed diagnostics and recorded definitions",
         "Well-formed specifications and ones seeded with every subset of up to 2 (quick) / 3 (thorough) of the eight defect kinds are parsed by the real spec.Parse (+ Spec.DFA for patterns); the defects present are recomputed from the text by the reference reader; rejected iff non-empty, every diagnostic claim must be a present defect, accepted specifications must carry exactly one correct definition per terminal.",
         "Trusted base: R1 reader + defect model (c07.go). Open finding D18 (literal text equals a token name).", "5/C07"),
 "C12": ("exploration", "runtime monitoring: reference-model oracle over observed Spec.Precedences (levels, associativity, handles, language of production handles)",
         "Generated directive lists (0-8 levels, all associativities, terminal and rule handles with alternation and extended operators, any placement) are parsed by the real spec.Parse; the recorded levels are compared with the directives read by the reference reader; production handles must be grammar productions, be counted per distributed alternative and generate the written language.",
         "Trusted base: R1 reader, R3 bounded languages (k=4).", "5/C12"),
 "C11": ("exploration", "runtime monitoring: reference-reader oracle over observed trees (generic parse tree, typed tree with positions), unparser round trip and derived-grammar comparison",
         "The real ParseAndBuildAST and ebnf ast.Parse are run on generated specifications; the generic tree must equal the reference reader's tree leaf by leaf (terminal, lexeme, position) and node by node (documented production); the typed tree must equal the reference typed tree (normalised) including positions; the typed tree is printed back to EBNF and re-parsed; the bounded languages derived from the typed tree must equal those of spec.Parse's grammar.",
         "Trusted base: R1 reader, harness unparser, R3 (k=4).", "5/C11"),
 "C13": ("exploration", "runtime monitoring: metamorphic + reference oracle over observed results of re-laid-out texts, with a byte-by-byte padding sweep across buffer alignments",
         "For each base specification the real spec.Parse / ast.Parse / lexer are run on seeded re-layouts of the same token sequence and on a padding sweep (every padding amount in the thorough tier; windows below each buffer multiple plus every 8th amount in the quick tier) at three places; the canonical rendering of the result must be identical and the token positions must equal the reference scanner's on each variant.",
         "Trusted base: R1 scanner for absolute positions; canonical rendering in specobs.go/astobs.go.", "5/C13"),
 "C14": ("exploration", "runtime monitoring: crash/hang monitor over worker processes (input written to disk before each call, recovered panics, worker death, nil-result check, per-input watchdog) and an exit-status/stack-trace monitor over real CLI processes",
         "Hostile inputs (random bytes, every prefix of fixtures, byte/token mutations, token soup, ill-formed specifications, deep nesting, all short pattern strings, non-ASCII escapes, large repetition counts) are fed to every library entry point inside sharded worker processes, and ~150 command lines (awkward output locations and names included) to the real binary; hash-flooding symbol names, odd-shape specifications and the generator stage are part of the workload; any panic, worker death, nil result without error, empty error, stack trace or zero exit on error is a violation.",
         "Hang clause decided as bounded progress in CPU time of the worker (40 CPU-s for inputs <= 1 KiB, 120 CPU-s for <= 4 KiB; larger inputs and wall-clock stalls are inconclusive). Patterns with huge repetition counts are probed in a child process whose address space is capped (open finding D28: counts >= 2^24 exhaust memory).", "5/C14"),
 "C15": ("exploration", "runtime monitoring: repeated-execution differential monitor (K fresh processes + K in-process repetitions, byte comparison of files, diagnostics and exit status)",
         "Each specification (fixtures, multi-state terminals, several conflicts / invalid patterns / defects at once, LALR conflicts) is run K times in fresh processes of the real CLI and K times in-process; every observation must be byte-identical after stripping ANSI sequences and non-ASCII decoration.",
         "Each process has its own hash/map seeds; K=6 (quick, 2 for specifications that take seconds) / 20 (thorough) repetitions sample them; an order that differs with lower probability than that can be missed.", "5/C15"),
 "C16": ("fault_enumeration", "runtime monitoring with fault injection: strace -f as syscall monitor and as injector (every k-th write / openat / mkdirat fails with ENOSPC, EIO, EACCES), before/after filesystem snapshots, comparison with a fault-free in-process generation",
         "The real binary runs in private sandboxes over the flag x input-class x pre-state x name matrix and under every single-fault point of a fault-free run; exit status, announcement, the six files (byte-identical to a reference generation), the syscall policy (O_CREAT|O_EXCL only below <out>/<name>, one mkdir, never unlink/rename/truncate/chmod) and the untouched pre-existing tree are checked per run.",
         "Single faults only (one failing call per run). Faults that hit a console write make the announcement unobservable and are not judged for that clause.", "5/C16"),
 "C03": ("exploration", "runtime monitoring: differential reference-model oracle (full product walk of reference automata x the observed combined DFA; ownership, state lists and conflict reports)",
         "For all pairs and seeded larger sets of a relationship-rich definition pool the real Spec.DFA() is observed (partly through spec.Parse of a specification text); the full product of independent per-definition automata and emerge's combined DFA is explored: acceptance, owner of every accepting state, exactness of every terminal's state list, and 'conflict reported iff real' are decided per set.",
         "Trusted base: R2 automata and literal unescaping. Open finding D20b (dependency queue defect for 64-state chains). Two literals with equal denotation are masked.", "5/C03"),
 "C08": ("exploration", "runtime monitoring: the emitted package is built and executed - a generated in-package dump of advanceDFA/evalDFA over every state x every relevant code point is compared with the in-process automaton; go/parser and import checks on every file",
         "Each chosen specification is emitted by the real CLI into a requirement-free scratch module; all files must parse and build; the compiled package dumps its transition function for every state in [-1, N+2] x (alphabet, neighbours, probe characters) and its accepting table, which must equal Spec.DFA() under a start-anchored bijection, with nothing for other states.",
         "Trusted base: Go toolchain; Spec.DFA() of the same text as the reference (its correctness is C02/C03's).", "5/C08"),
 "C19": ("exploration", "runtime monitoring: the compiled emitted lexer runs as a child process over automaton-derived inputs and a buffer-alignment padding sweep; its token stream is compared with a reference simulator of the documented scanning discipline on emerge's own automaton",
         "Emitted lexers are built and driven with inputs generated from their automata (accepting walks, near-misses, stray and multi-byte characters, non-discardable white space, small read chunks) and with paddings that move tokens across every buffer-half alignment; kind, lexeme, offset, line, column and the final EOF/error must equal the reference simulator's.",
         "Trusted base: R5 simulator (60 lines) over Spec.DFA(). Lexemes shorter than one buffer half.", "5/C19"),
 "C17": ("exploration", "runtime monitoring: Go race detector over concurrent parses (reports parsed and classified by owning package) plus sequential-history differential monitor against isolated fresh-process baselines",
         "About 60 specifications and patterns are processed in many orders in one process and every result is compared with the result of a fresh process that handled only that item; results are also HELD while other texts are processed and re-read afterwards, and sources that fail part-way precede valid items; a race-instrumented build runs 16 goroutines over the same items and every race report is attributed to its owning package: any report owned by emerge is a violation; reports owned only by the dependency are the open finding D16.",
         "The detector generalises over timings only for unsynchronised accesses actually executed; while dependency races are present concurrent result mismatches cannot be attributed and are not judged.", "5/C17"),
}

PENDING_REASON = "check not built yet in this round (planned, see DESIGN.md section 5)"

def main():
    ids = ["C%02d" % i for i in range(1, 21)]
    checks = []
    for i in ids:
        if i in CLAIMED:
            cat, tech, text, note, ref = CLAIMED[i]
            checks.append({
                "property_id": i,
                "quick_cmd": "./check %s quick" % i,
                "thorough_cmd": "./check %s thorough" % i,
                "evidence_file": "/verif/evidence/%s.json" % i,
                "replay_cmd_template": "./check %s quick --replay {path}" % i,
                "engine": "vh",
                "level_claimed": {"category": cat, "text": text, "design_ref": "DESIGN.md section " + ref},
                "level_note": note,
                "technique": tech,
            })
    m = {
        "version": 1,
        "setup_cmd": "./build.sh all",
        "hooks": {
            "guard": "verif",
            "enable": "go build -tags verif -overlay /verif/build/overlay.<hash>.json ./internal/zzverif (run from /repo by /verif/build.sh): the harness and the export shim under /verif/shims are compiled INTO the emerge module through a build overlay; no file under /repo is created or changed, so there are no hook commits",
            "baseline_off_cmd": "cd /repo && GOFLAGS=-mod=mod GOPROXY=off go test -json -vet=off -count=1 -timeout 25m ./...",
            "source_commits": [],
            "add_only": True,
        },
        "engines": [
            {"name": "vh", "path": "/verif/harness", "serves_properties": sorted(CLAIMED), "kind_free_text": "Go harness compiled into the emerge module (build overlay); one sub-command per property; parent process shards the deterministic case list over child processes, merges their observations, decides with reference-model oracles, writes evidence"},
        ],
        "checks": checks,
        "not_applicable": [{"property_id": i, "reason": PENDING_REASON} for i in ids if i not in CLAIMED],
        "notes": "Family: runtime monitoring. Go race detector for C17, strace monitor/injector for C16, reference-model monitors over observed executions for the rest. See DESIGN.md; known findings and fixed defects in known_findings.json.",
    }
    json.dump(m, open("/verif/MANIFEST.json", "w"), indent=1)
    print("MANIFEST.json: %d checks, %d not_applicable" % (len(checks), len(m["not_applicable"])))

main()

#!/usr/bin/env bash
# usage: tools/confirm_sh.sh <agent worktree> <i> <seeded id> <property>
# For demonstrations that are shell scripts bound to the agent's worktree: confirm there (clean: pass, patched: fail,
# build + suite pass), then store the patch rebased on /repo HEAD.
set -u
WT="$1"; I="$2"; ID="$3"; PROP="$4"
export GOFLAGS=-mod=mod GOPROXY=off
cd "$WT" || exit 2
git checkout -q -- . 2>/dev/null
clean=fail; sh OUT/$I/demo.sh >/tmp/confirm/$ID.clean.log 2>&1 && clean=pass
git apply OUT/$I/patch.diff || { echo "$ID: patch does not apply in its own worktree"; exit 1; }
build=fail; go build ./... >/tmp/confirm/$ID.build.log 2>&1 && build=pass
mv OUT /tmp/confirm/$ID.OUT
suite=fail; go test -vet=off -count=1 ./... >/tmp/confirm/$ID.suite.log 2>&1 && suite=pass
mv /tmp/confirm/$ID.OUT OUT
mut=pass; sh OUT/$I/demo.sh >/tmp/confirm/$ID.mut.log 2>&1 || mut=fail
git checkout -q -- .
# does it apply to the current /repo HEAD?
applies=no; (cd /repo && git apply --check "$WT/OUT/$I/patch.diff" 2>/dev/null) && applies=yes
echo "$ID: applies_to_repo_head=$applies build=$build suite=$suite demo_clean=$clean demo_mutated=$mut"
if [ $applies = yes ] && [ $build = pass ] && [ $suite = pass ] && [ $clean = pass ] && [ $mut = fail ]; then
  D=/verif/seeded/$ID; mkdir -p "$D"; cp OUT/$I/patch.diff OUT/$I/README.md "$D/"; cp OUT/$I/demo.sh "$D/" 2>/dev/null
  for f in OUT/$I/*; do case "$f" in *.diff|*.md|*demo.sh) ;; *) [ -f "$f" ] && cp "$f" "$D/";; esac; done
  python3 - "$ID" "$PROP" "$(git -C /repo rev-parse --short HEAD)" <<'PY'
import json,sys
i,prop,head=sys.argv[1:4]
meta={"id":i,"property":prop,"source":"independent sub-agent given only the property text and a scratch worktree",
 "demo":{"file":"demo.sh","run":"sh demo.sh from a checkout with the patch applied (the script builds the CLI from the checkout; paths inside refer to the agent's scratch worktree and must be adapted)"},
 "confirmed_on_repo_commit":head,
 "confirmed":{"patch_applies":True,"builds":True,"existing_suite_passes":True,"demo_passes_without_change":True,"demo_fails_with_change":True},
 "needs_to_manifest":"see README.md","detected_by":"(filled in by tools/runseeded.sh)"}
json.dump(meta,open('/verif/seeded/%s/meta.json'%i,'w'),indent=1)
PY
  echo "  kept as /verif/seeded/$ID"
fi

#!/usr/bin/env bash
# Runs the thorough tier of every check (or those given) from the directory of this framework copy; summary on stdout.
cd "$(dirname "$0")/.." || exit 2
IDS="${*:-C01 C02 C03 C04 C05 C06 C07 C08 C09 C10 C11 C12 C13 C14 C15 C16 C17 C18 C19 C20}"
for id in $IDS; do
  s=$(date +%s)
  out=$(./check "$id" thorough 2>&1); rc=$?
  e=$(( $(date +%s) - s ))
  echo "== $id thorough: exit=$rc wall=${e}s"
  echo "$out" | grep -E 'VIOLATION|KNOWN-FINDING|INCONCLUSIVE|tier=' | cut -c1-240 | head -12
done

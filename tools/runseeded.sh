#!/usr/bin/env bash
# Runs every seeded change in /verif/seeded against the quick check of its property (and extra checks given in
# seeded/<id>/also) on /repo, undoing it straight afterwards. Writes /verif/SELFTEST.md and updates meta.json.
set -u
cd /verif
OUT=/verif/SELFTEST.md
TMP=$(mktemp)
{
echo "# Seeded changes vs checks"
echo
echo "Each change compiles and passes the 846-test suite; its demonstration fails with it and passes without (see seeded/<id>/meta.json)."
echo "Run on $(date -u +%F) against /repo $(git -C /repo rev-parse --short HEAD), tier ${TIER:-quick}."
echo
echo "| seeded id | property | check(s) that report a VIOLATION | first violation (case) |"
echo "|---|---|---|---|"
} > "$TMP"
for d in seeded/*/; do
  id=$(basename "$d"); prop=${id%%-*}
  [ -f "$d/patch.diff" ] || continue
  if [ -n "$(git -C /repo status --porcelain)" ]; then echo "repo dirty"; exit 2; fi
  git -C /repo apply "/verif/$d/patch.diff" || { echo "| $id | $prop | PATCH DOES NOT APPLY | |" >> "$TMP"; git -C /repo checkout -- .; continue; }
  caught=""; first=""
  for chk in $prop $(cat "$d/also" 2>/dev/null); do
    out=$(timeout 1500 ./check "$chk" "${TIER:-quick}" 2>&1)
    if echo "$out" | grep -q '^VIOLATION'; then
      caught="$caught $chk"
      [ -z "$first" ] && first=$(echo "$out" | grep -m1 'case=' | sed 's/.*case=//' | cut -c1-60)
    fi
  done
  git -C /repo checkout -- .
  [ -z "$caught" ] && caught="**MISSED**"
  echo "| $id | $prop |$caught | $first |" >> "$TMP"
  python3 - "$d/meta.json" "$caught" <<'PY'
import json,sys
p,c=sys.argv[1],sys.argv[2]
try:
    m=json.load(open(p))
except Exception:
    m={}
m["detected_by"]=c.strip()
json.dump(m,open(p,"w"),indent=1)
PY
  echo "$id: $caught"
done
mv "$TMP" "$OUT"
./build.sh all >/dev/null 2>&1

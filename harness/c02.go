package main

// C02 - token patterns compile to automata that accept exactly the pattern's language.
// C10 - the direct (followpos) construction agrees with the NFA route and with the documented meaning.
// Both are decided per pattern by complete language equality (product walk), see DESIGN.md.

import (
	"fmt"
	"sort"
	"strings"
	"time"

	auto "github.com/moorara/algo/automata"
	"github.com/moorara/algo/grammar"

	ebnfparser "github.com/gardenbed/emerge/internal/ebnf/parser"
	"github.com/gardenbed/emerge/internal/ebnf/parser/spec"
	rast "github.com/gardenbed/emerge/internal/regex/parser/ast"
	"github.com/gardenbed/emerge/internal/regex/parser/nfa"
)

type patCase struct {
	name string
	tree *reNode
	text string
	ex   string // name of exhaustive sub-space this case belongs to ("" = none)
}

// patternPopulation builds the shared pattern population of C02/C10. narrowOnly keeps the 128-symbol classes out
// (used by the slower followpos route).
func patternPopulation(c *ctx, forC10 bool) []patCase {
	var out []patCase
	add := func(name string, t *reNode, ex string) {
		out = append(out, patCase{name: name, tree: t, text: t.print(), ex: ex})
	}
	// 1. exhaustive small trees over a tiny alphabet
	cfgSmall := reGenCfg{atoms: []*reNode{lit('a'), lit('b'), leaf("[ab]", rsOf('a', 'b'))}, quants: smallQuants()}
	e := newReEnum(cfgSmall)
	maxSize := c.n(4, 5)
	for n := 1; n <= maxSize; n++ {
		xs := e.expr(n)
		limit := c.n(6000, 120000)
		if len(xs) <= limit {
			for i, t := range xs {
				add(fmt.Sprintf("enum%d/%d", n, i), t, fmt.Sprintf("trees_size_%d_over_a_b_[ab]", n))
			}
		} else {
			r := c.rng(fmt.Sprintf("enum%d", n))
			for i := 0; i < limit; i++ {
				j := r.intn(len(xs))
				add(fmt.Sprintf("enum%d/%d", n, j), xs[j], "")
			}
		}
	}
	// 1b. full quantifier set and wide atoms at size <= 2 (each atom x each quantifier form, lazy or not)
	cfgFull := reGenCfg{atoms: narrowAtoms(), quants: allQuants()}
	e2 := newReEnum(cfgFull)
	for n := 1; n <= 2; n++ {
		for i, t := range e2.expr(n) {
			add(fmt.Sprintf("full%d/%d", n, i), t, "atoms_x_all_quantifier_forms")
		}
	}
	// 2. every class and escape individually, in each context
	for i, a := range individualAtoms() {
		for j, t := range atomContexts(a) {
			if forC10 && a.wide && j >= 3 && c.quick() {
				continue
			}
			add(fmt.Sprintf("atom%d.%d", i, j), t, "every_class_and_escape_in_contexts")
		}
	}
	// 3. nullable-operand concatenations (C10's concern; cheap, so part of both)
	nullables := []*reNode{
		quantified(lit('a'), qStar), quantified(lit('a'), qOpt), group(alt(lit('a'), quantified(lit('b'), qStar)), quant{}),
		quantified(lit('a'), mkq("{", 0, 0, 0, false)), quantified(lit('b'), mkq("{", 0, 2, 2, false)),
		group(cat(quantified(lit('a'), qOpt), quantified(lit('b'), qOpt)), quant{}),
		group(cat(lit('a'), lit('b')), qStar), group(alt(lit('a'), lit('b')), mkq("{", 0, 1, 2, false)),
	}
	solids := []*reNode{lit('a'), lit('b'), lit('c'), group(alt(lit('a'), lit('c')), quant{}), quantified(lit('c'), qPlus), group(cat(lit('a'), lit('b')), mkq("{", 1, 2, 2, false))}
	pool := append(append([]*reNode{}, nullables...), solids...)
	idx := 0
	for n := 2; n <= c.n(3, 4); n++ {
		var rec func(pre []*reNode)
		rec = func(pre []*reNode) {
			if len(pre) == n {
				hasNull := false
				for _, k := range pre {
					if k.nullable() {
						hasNull = true
					}
				}
				if hasNull {
					add(fmt.Sprintf("nullcat%d/%d", n, idx), cat(append([]*reNode{}, pre...)...), fmt.Sprintf("concatenations_of_%d_operands_some_nullable", n))
					idx++
				}
				return
			}
			for _, k := range pool {
				rec(append(pre, k))
			}
		}
		if n <= 3 || c.thorough() {
			rec(nil)
		}
	}
	// 4 and 5 operands over a small pool in every tier (followpos must skip runs of nullable operands, and must stop)
	small := []*reNode{quantified(lit('a'), qStar), quantified(lit('b'), qOpt), group(alt(lit('c'), quantified(lit('d'), qStar)), quant{}), lit('a'), lit('d'), quantified(lit('c'), qPlus)}
	for n := 4; n <= 5; n++ {
		var rec2 func(pre []*reNode)
		rec2 = func(pre []*reNode) {
			if len(pre) == n {
				hasNull := false
				for _, k := range pre {
					if k.nullable() {
						hasNull = true
					}
				}
				if hasNull {
					add(fmt.Sprintf("nullcat%d/s%d", n, idx), cat(append([]*reNode{}, pre...)...), fmt.Sprintf("concatenations_of_%d_operands_small_pool", n))
					idx++
				}
				return
			}
			for _, k := range small {
				rec2(append(pre, k))
			}
		}
		rec2(nil)
	}
	// nested stars and repetition ranges over groups
	for i, t := range []*reNode{
		group(group(lit('a'), qStar), qStar), group(group(alt(lit('a'), lit('b')), qStar), qPlus),
		group(group(cat(lit('a'), quantified(lit('b'), qStar)), qStar), mkq("{", 2, 3, 2, false)),
		group(group(cat(lit('a'), lit('b')), mkq("{", 0, 2, 2, false)), mkq("{", 1, 2, 2, false)),
		group(alt(cat(lit('a'), lit('b')), quantified(lit('c'), qStar)), mkq("{", 2, 2, 0, false)),
		cat(group(alt(lit('a'), lit('b')), qStar), lit('a'), lit('b'), lit('b')),
		group(quantified(lit('a'), qOpt), mkq("{", 3, 3, 0, false)),
		group(group(quantified(lit('a'), qOpt), qStar), qOpt),
	} {
		add(fmt.Sprintf("nested%d", i), t, "")
	}
	// 4. predefined patterns (parsed by the reference reader of the documented grammar)
	names := make([]string, 0, len(ebnfparser.Predefs))
	for k := range ebnfparser.Predefs {
		names = append(names, k)
	}
	sort.Strings(names)
	for _, k := range names {
		t, sem, err := parsePattern(ebnfparser.Predefs[k])
		if err != nil || sem {
			c.note("predef %s: reference reader cannot read %q: %v", k, ebnfparser.Predefs[k], err)
			c.inconclusive("predef-unreadable")
			continue
		}
		out = append(out, patCase{name: "predef" + k, tree: t, text: ebnfparser.Predefs[k], ex: "all_predefined_patterns"})
	}
	// 5. seeded random larger trees
	r := c.rng("random")
	nRand := c.n(12000, 600000)
	if forC10 {
		nRand = c.n(8000, 500000)
	}
	for i, t := range randomPatterns(r, nRand) {
		if forC10 {
			wide := 0
			t.walk(func(k *reNode) {
				if k.kind == rLeaf && k.wide {
					wide++
				}
			})
			if wide > 1 {
				continue
			}
		}
		add(fmt.Sprintf("rand%d", i), t, "")
	}
	// 5b. blanks at the edges of a pattern are literals like any other; a zero repetition is the empty string; an explicit
	// NUL can never match a NUL-free text (and must not become optional)
	{
		sp, a, b := lit(' '), lit('a'), lit('b')
		zero := func(n *reNode) *reNode { return quantified(n, mkq("{", 0, 0, 0, false)) }
		zero2 := func(n *reNode) *reNode { return quantified(n, mkq("{", 0, 0, 2, false)) }
		nul := leaf(`\x00`, rsOf(0))
		for i, t := range []*reNode{
			cat(sp, a), cat(a, sp), sp, cat(sp, sp, a, sp, sp), cat(quantified(leaf("[0-9]", rsDigit), qPlus), sp), cat(sp, quantified(a, qStar)), alt(cat(a, sp), b), cat(sp, sp),
			zero(a), zero2(a), cat(a, zero(b), a), cat(lit('v'), zero(leaf("[0-9]", rsDigit)), lit('x')), cat(lit('k'), zero2(leaf("[a-z]", rsRange('a', 'z'))), lit('z')), zero(group(cat(a, b), quant{})), cat(zero(a), zero(b)), alt(zero(a), b),
			cat(a, nul, b), nul, cat(a, b, nul, lit('c'), leaf("[0-9]", rsDigit)), cat(lit('k'), lit('e'), lit('y'), nul), alt(nul, a), cat(a, leaf(`\x0000`, rsOf(0))),
		} {
			add(fmt.Sprintf("edge%d", i), t, "edge_blanks_zero_repetitions_explicit_nul")
		}
	}
	// 6. the start-of-string marker (regex = [ "^" ] expr): for a whole-match language it changes nothing. In front of
	// plain literals (where a shortcut around the pattern parser would be tempting) and of every 61st other pattern.
	base := len(out)
	for i, w := range []string{"a", "ab", "abc", "begin", "end", ":=", "=>", "<=", "while", "x1", "_", "-", ",", "a,b", "%", "#", "&&", "if", "then", "0", "00", "A", "Zz", "~", "!", "@", "a b", "'", "\"", ";", "<>", "=", "==", "a-b", "a:b"} {
		var kids []*reNode
		for _, r := range w {
			kids = append(kids, lit(r))
		}
		t := kids[0]
		if len(kids) > 1 {
			t = cat(kids...)
		}
		out = append(out, patCase{name: fmt.Sprintf("anchored-literal%d", i), tree: t, text: "^" + t.print(), ex: "start_marker_before_plain_literals"})
	}
	for i := 0; i < base; i += 61 {
		if pc := out[i]; !strings.HasPrefix(pc.text, "^") {
			out = append(out, patCase{name: "anchored-" + pc.name, tree: pc.tree, text: "^" + pc.text})
		}
	}
	return out
}

// predefined patterns: hand-written must-accept / must-reject strings
var predefExamples = map[string][2][]string{
	"$WS":      {{" ", "\t", "\n", "\r"}, {"", "  ", "a", "\f"}},
	"$DIGIT":   {{"0", "5", "9"}, {"", "a", "10", "/"}},
	"$LETTER":  {{"a", "Z", "m"}, {"", "_", "1", "ab"}},
	"$ID":      {{"a", "_x1", "Ab_9", "_"}, {"", "1a", "a-b", "a b"}},
	"$NUMBER":  {{"0", "-12", "3.14", "-0.5", "007"}, {"", "-", "1.", ".5", "1.2.3", "+1"}},
	"$STRING":  {{`"a"`, `"a\"b"`, `"\\"`, `"!#"`}, {`""`, `"a`, `a"`, `"a b"`, `"a"b"`}},
	"$COMMENT": {{"#", "# hi", "//", "// x y", "/**/", "/* a\n b */", "/* ** */", "/***/"}, {"", "/", "/*", "/* x", "# a\n", "/**/ "}},
}

func autoLangTrivial(d *refDFA) bool { return d.trivialLanguage() }

func init() {
	register(&property{
		id:    "C02",
		level: "exploration",
		rule: "patterns: (1) all syntax trees of the documented pattern grammar up to a size bound over atoms {a,b,[ab]} x 10 quantifier forms, (1b) 6 atoms incl. '.', [^a] x all 28 quantifier forms (lazy or not), " +
			"(2) every class, POSIX class, escaped metacharacter, printable literal and \\x form individually in 8 contexts, bare / in [] / in [^], (3) concatenations with nullable operands, " +
			"(4) every predefined $NAME pattern, (4b) repetition counts that no machine integer can hold (2^63 .. 2^128+1) in 6 quantifier forms: refused, or an automaton that is right on a^0..a^69 (probed in a memory-capped child process), (5) seeded random trees to depth 4, (6) the start-of-string marker ^ in front of plain literals and of every 61st other pattern. Each pattern is decided by FULL language equality (BFS over the product of the reference automaton and each " +
			"emerge stage: NFA, ToDFA, Minimize, EliminateDeadStates, ReindexStates, and Spec.DFA() end-to-end), not by sampling strings. non-trivial = reference language is not {} and not {eps}; distinct by pattern text.",
		assumptions: []string{
			"reference meaning of each construct is the harness' transcription of docs/5-definitions.md (R2); '.' and negation range over U+0001..U+007F; \\s = [ \\t\\n\\r\\f]",
			"strings containing NUL are outside the comparison (the reader's sentinel; the property excludes it)",
			"the Unicode classes \\p{..} are marked TODO upstream (most tables are empty, Lu is A-Z): their membership is not judged; only that \\P{X} is the complement of \\p{X} in every form and order (metamorphic). '$' not at the end and '^' not at the start have no documented meaning and are not generated",
		},
		floorQuick: 2000, floorThorough: 20000,
		run: runC02,
	})
	register(&property{
		id:    "C10",
		level: "exploration",
		rule: "same pattern space as C02 (wide 128-symbol classes at most once per pattern), enriched with every concatenation of 2-4 operands where some operands are nullable, nested stars, repetition ranges over groups. " +
			"Three-way FULL language equality per pattern: followpos route = NFA route = reference automaton. non-trivial = pattern has a concatenation with a nullable operand, a repetition range, or a nullable whole; distinct by text.",
		assumptions: []string{"same reference meaning as C02", "strings containing NUL are outside the comparison"},
		floorQuick:  1500, floorThorough: 15000,
		run: runC10,
	})
}

// stagesOf runs the token pipeline on a pattern exactly as spec.regexToDFA does, one stage at a time.
type stageObs struct {
	name string
	a    detAuto
	nst  int
}

func nfaStages(p string) (stages []stageObs, err error) {
	n, err := nfa.Parse(p)
	if err != nil {
		return nil, err
	}
	if n == nil {
		return nil, fmt.Errorf("nil NFA without error")
	}
	stages = append(stages, stageObs{"nfa.Parse", fromAutoNFA(n), len(n.States())})
	d := n.ToDFA()
	stages = append(stages, stageObs{"ToDFA", fromAutoDFA(d), len(d.States())})
	d = d.Minimize()
	stages = append(stages, stageObs{"Minimize", fromAutoDFA(d), len(d.States())})
	d = d.EliminateDeadStates()
	stages = append(stages, stageObs{"EliminateDeadStates", fromAutoDFA(d), len(d.States())})
	d = d.ReindexStates()
	stages = append(stages, stageObs{"ReindexStates", fromAutoDFA(d), len(d.States())})
	return stages, nil
}

func specDFA(p string) (*auto.DFA, map[grammar.Terminal][]auto.State, error) {
	s := &spec.Spec{Name: "t", Definitions: []*spec.TerminalDef{{Terminal: "T", Value: p, IsRegex: true}}}
	return s.DFA()
}

func runC02(c *ctx) {
	cases := patternPopulation(c, false)
	exh := map[string]bool{}
	for _, pc := range cases {
		if pc.ex != "" {
			exh[pc.ex] = true
		}
		if !c.mine() {
			continue
		}
		c02One(c, pc)
	}
	for k := range exh {
		c.exhaustive(k, true)
	}
	// \p{X} and \P{X}: whatever the tables hold, the two are complements of each other, in every order of compilation and
	// in every position (bare, in a bracket group, in a negated bracket group). Decided on single characters.
	if c.shard == 3%c.of {
		cats := []string{"Math", "Emoji", "Latin", "Greek", "Cyrillic", "Han", "Persian", "Letter", "Lu", "Ll", "Lt", "Lm", "Lo", "L",
			"Mark", "Mn", "Mc", "Me", "M", "Number", "Nd", "Nl", "No", "N", "Punctuation", "Pc", "Pd", "Ps", "Pe", "Pi", "Pf", "Po", "P",
			"Separator", "Zs", "Zl", "Zp", "Z", "Symbol", "Sm", "Sc", "Sk", "So", "S"}
		probes := []rune{'a', 'Z', 'm', '0', ' ', '_', '+', 0xE9, 0x3BB, 0x416, 0x4E2D, 0x8A9E, 0x627, 0x2211, 0x1F600, 0x1C5, 0x2160, 0xA0, 0x2028}
		build := func(p string) *eDFA {
			var e *eDFA
			pv, _ := safely(func() {
				if n, err := nfa.Parse(p); err == nil && n != nil {
					e = fromAutoDFA(n.ToDFA())
				}
			})
			if pv != nil {
				return nil
			}
			return e
		}
		for i, x := range cats {
			c.eval()
			forms := [][2]string{{`\p{` + x + `}`, `\P{` + x + `}`}, {`[\p{` + x + `}]`, `[^\p{` + x + `}]`}, {`[^\P{` + x + `}]`, `[\P{` + x + `}]`}}
			var pos, neg []*eDFA
			for k, f := range forms {
				first, second := f[0], f[1]
				if (i+k)%2 == 1 {
					first, second = second, first // compile the negated form first for half of them
				}
				a, b := build(first), build(second)
				if (i+k)%2 == 1 {
					a, b = b, a
				}
				pos, neg = append(pos, a), append(neg, b)
			}
			ok := true
			for k := range forms {
				if pos[k] == nil || neg[k] == nil {
					c.inconclusive("unicode class pattern rejected (C09's business)")
					ok = false
				}
			}
			if !ok {
				continue
			}
			c.nontrivial("unicode-class " + x)
			c.count("unicode_class_complement_checks", 1)
			for _, r := range probes {
				in0 := pos[0].matches(string(r))
				for k := range forms {
					ip, in := pos[k].matches(string(r)), neg[k].matches(string(r))
					// negation ranges over the 7-bit characters (assumption above): beyond them only disjointness is demanded
					if (r < 0x80 && (ip == in || ip != in0)) || (ip && in) {
						c.violate(violation{Case: "unicode-class-complement", Input: map[string]any{"class": x, "positive_form": forms[k][0], "negated_form": forms[k][1], "character": fmt.Sprintf("U+%04X", r)},
							Observed: fmt.Sprintf("%s %s the character, %s %s it, \\p{%s} %s it", forms[k][0], accWord(ip), forms[k][1], accWord(in), x, accWord(in0)),
							Expected: "a class and its negation accept complementary sets of (7-bit) characters and never the same character, the same in every form and in every order of compilation"})
						break
					}
				}
			}
		}
	}
	// repetition counts that no int can hold: the pattern may be refused, but if it is accepted the automaton must not
	// be that of some other count (a wrapped-around number). Decided on the strings a^k, k < 70, in a memory-capped child.
	if c.shard == 2%c.of {
		type huge struct {
			p    string
			want func(k int) bool // is a^k in the language?
		}
		none := func(int) bool { return false }
		var hs []huge
		for _, n := range []string{"9223372036854775808", "9223372036854775809", "18446744073709551616", "18446744073709551617", "18446744073709551619", "36893488147419103235", "99999999999999999999999", "340282366920938463463374607431768211457"} {
			hs = append(hs, huge{"a{" + n + "}", none}, huge{"a{" + n + ",}", none}, huge{"a{" + n + "," + n + "}", none},
				huge{"a{2," + n + "}", func(k int) bool { return k >= 2 }}, huge{"a{0," + n + "}", func(k int) bool { return true }}, huge{"(a{" + n + "})?", func(k int) bool { return k == 0 }})
		}
		for _, h := range hs {
			c.eval()
			c.guard("huge-count " + h.p)
			st, bits, out := patProbe(h.p)
			c.count("unrepresentable_repetition_counts_"+st, 1)
			switch st {
			case "rejected":
				c.nontrivial(h.p)
			case "accepted":
				c.nontrivial(h.p)
				for k := 0; k < len(bits); k++ {
					if (bits[k] == '1') != h.want(k) {
						c.violate(violation{Case: "huge-count", Input: h.p, Observed: fmt.Sprintf("accepted, and the automaton %s the string of %d a's", accWord(bits[k] == '1'), k),
							Expected: fmt.Sprintf("refused, or an automaton that %s it (the count does not fit a machine integer; it must not wrap around)", accWord(h.want(k)))})
						break
					}
				}
			default:
				c.inconclusive("huge-count probe died (C14's business)")
				c.note("huge-count probe %q: %s %s", h.p, st, out)
			}
		}
	}
	// hand-written examples for the predefined patterns (all shards would repeat them; shard 0 only)
	if c.shard == 0 {
		for name, ex := range predefExamples {
			p, ok := ebnfparser.Predefs[name]
			if !ok {
				c.violate(violation{Sig: "", Case: "predef-missing", Input: name, Observed: "no such predefined pattern", Expected: "documented predefined name"})
				continue
			}
			var d *auto.DFA
			var err error
			pv, _ := safely(func() { d, _, err = specDFA(p) })
			c.eval()
			if pv != nil || err != nil || d == nil {
				c.inconclusive("predef-build-failed")
				continue
			}
			e := fromAutoDFA(d)
			for _, s := range ex[0] {
				c.count("predef_example_strings", 1)
				if !e.matches(s) {
					c.violate(violation{Case: "predef-example", Input: map[string]string{"predef": name, "pattern": p, "string": s}, Observed: "rejected", Expected: "accepted (documented meaning of " + name + ")"})
				}
			}
			for _, s := range ex[1] {
				c.count("predef_example_strings", 1)
				if e.matches(s) {
					c.violate(violation{Case: "predef-example", Input: map[string]string{"predef": name, "pattern": p, "string": s}, Observed: "accepted", Expected: "rejected (documented meaning of " + name + ")"})
				}
			}
		}
	}
}

func c02One(c *ctx, pc patCase) {
	c.eval()
	c.guard(pc.name + " " + pc.text)
	ref := newRefDFA(pc.tree)
	var stages []stageObs
	var err error
	pv, stack := safely(func() { stages, err = nfaStages(pc.text) })
	if pv != nil {
		c.inconclusive("panic (C14's business)")
		c.note("panic on %q: %v %s", pc.text, pv, firstLines(stack, 6))
		return
	}
	if err != nil {
		// acceptance of documented patterns is C09's; without an automaton there is nothing to compare
		c.inconclusive("pattern rejected (C09's business)")
		c.note("rejected %q: %v", pc.text, err)
		return
	}
	ok := true
	for _, st := range stages {
		d := langCompare(ref, st.a)
		c.count("product_states_explored", int64(d.States))
		c.count("stage_comparisons", 1)
		if !d.Equal {
			ok = false
			c.violate(violation{
				Sig:  patternSig(pc.tree),
				Case: pc.name, Input: pc.text,
				Observed: fmt.Sprintf("stage %s: string %q is %s", st.name, d.Witness, accWord(!d.AAccepts)),
				Expected: fmt.Sprintf("%q is %s by the documented meaning", d.Witness, accWord(d.AAccepts)),
				Note:     "first stage of the token pipeline whose language differs from the reference: " + st.name,
			})
			break
		}
	}
	// end to end through the spec (adds CombineDFA)
	var d *auto.DFA
	var tm map[grammar.Terminal][]auto.State
	pv, _ = safely(func() { d, tm, err = specDFA(pc.text) })
	if pv != nil || err != nil || d == nil {
		if ok {
			c.inconclusive("Spec.DFA failed although the stages succeeded")
			c.note("Spec.DFA(%q): panic=%v err=%v", pc.text, pv, err)
		}
		return
	}
	e := fromAutoDFA(d)
	// every final state must be attributed to T and nothing else
	owned := map[int]bool{}
	for _, s := range tm["T"] {
		owned[int(s)] = true
	}
	if ok {
		ld := langCompare(ref, e)
		c.count("product_states_explored", int64(ld.States))
		c.count("stage_comparisons", 1)
		if !ld.Equal {
			ok = false
			c.violate(violation{Sig: patternSig(pc.tree), Case: pc.name, Input: pc.text,
				Observed: fmt.Sprintf("Spec.DFA(): string %q is %s", ld.Witness, accWord(!ld.AAccepts)),
				Expected: fmt.Sprintf("%q is %s", ld.Witness, accWord(ld.AAccepts)), Note: "end-to-end token pipeline"})
		}
		for s := range e.final {
			if !owned[s] {
				ok = false
				c.violate(violation{Case: pc.name, Input: pc.text, Observed: fmt.Sprintf("final state %d not attributed to the only terminal", s), Expected: "every final state owned by T"})
				break
			}
		}
	}
	c.setAdd("dfa_state_counts", fmt.Sprint(e.nst))
	if !autoLangTrivial(ref) {
		c.nontrivial(pc.text)
	}
	if c.res.Evaluations%97 == 1 {
		c.sample(map[string]any{"pattern": pc.text, "emerge_dfa_states": e.nst, "reference_states_explored": len(ref.sets)})
	}
}

func accWord(b bool) string {
	if b {
		return "accepted"
	}
	return "rejected"
}

func firstLines(s string, n int) string {
	ls := strings.Split(s, "\n")
	if len(ls) > n {
		ls = ls[:n]
	}
	return strings.Join(ls, " | ")
}

// patternSig is an input-side class of a pattern, used to attribute violations to known findings.
func patternSig(t *reNode) string {
	var tags []string
	seen := map[string]bool{}
	tag := func(s string) {
		if !seen[s] {
			seen[s] = true
			tags = append(tags, s)
		}
	}
	t.walk(func(k *reNode) {
		if k.kind == rLeaf && k.wide && k.set.has(1) && k.set.has(2) {
			tag("nul-universe-construct")
		}
	})
	sort.Strings(tags)
	return strings.Join(tags, "+")
}

// ---------------------------------------------------------------------------------------------- C10

func c10Nontrivial(t *reNode) bool {
	nt := t.nullable()
	t.walk(func(k *reNode) {
		if k.kind == rCat {
			for _, x := range k.kids {
				if x.nullable() {
					nt = true
				}
			}
		}
		if (k.kind == rGroup || k.kind == rQuant) && k.q.kind == "{" {
			nt = true
		}
	})
	return nt
}

// c10ClassAgreement: for the Unicode classes (whose tables are marked TODO upstream, so no reference meaning is assumed) the
// two routes must at least agree with each other, wherever the class stands.
func c10ClassAgreement(c *ctx) {
	cats := []string{"Math", "Emoji", "Greek", "Cyrillic", "Persian", "Letter", "Lu", "Ll", "Lt", "Lm", "Lo", "L",
		"Mark", "Mn", "Mc", "Me", "M", "Number", "Nd", "Nl", "No", "N", "Punctuation", "Pc", "Pd", "Ps", "Pe", "Pi", "Pf", "Po", "P",
		"Separator", "Zs", "Zl", "Zp", "Z", "Symbol", "Sm", "Sc", "Sk", "So", "S"}
	forms := []string{`\p{%s}`, `\P{%s}`, `a\p{%s}b`, `(ab|\p{%s})+c`, `x\p{%s}{2,3}|y`, `\p{%s}?z`, `\p{%s}*`, `[\p{%s}q]r`, `[^\p{%s}]`, `x\P{%s}{1,2}y|\p{%s}`}
	for _, x := range cats {
		for _, f := range forms {
			if !c.mine() {
				continue
			}
			p := strings.ReplaceAll(f, "%s", x)
			c.eval()
			var astD, nfaD *auto.DFA
			var errA, errN error
			pv, _ := safely(func() {
				var a *rast.AST
				if a, errA = rast.Parse(p); errA == nil {
					astD = a.ToDFA()
				}
				var n *auto.NFA
				if n, errN = nfa.Parse(p); errN == nil {
					nfaD = n.ToDFA()
				}
			})
			if pv != nil {
				c.inconclusive("panic (C14's business)")
				continue
			}
			if (errA == nil) != (errN == nil) {
				c.violate(violation{Case: "class-agreement", Input: p, Observed: fmt.Sprintf("followpos route err=%v, NFA route err=%v", errA, errN), Expected: "both routes accept or both reject the pattern"})
				continue
			}
			if errA != nil {
				c.inconclusive("pattern rejected (C09's business)")
				continue
			}
			c.nontrivial(p)
			d := langCompare(fromAutoDFA(nfaD), fromAutoDFA(astD))
			c.count("unicode_class_patterns_compared_between_the_routes", 1)
			if !d.Equal {
				c.violate(violation{Case: "class-agreement", Input: p, Observed: fmt.Sprintf("followpos route: %q is %s", d.Witness, accWord(!d.AAccepts)),
					Expected: fmt.Sprintf("%q is %s, as in the automaton built through the NFA route", d.Witness, accWord(d.AAccepts))})
			}
		}
	}
}

func runC10(c *ctx) {
	c10ClassAgreement(c)
	cases := patternPopulation(c, true)
	exh := map[string]bool{}
	for _, pc := range cases {
		if pc.ex != "" {
			exh[pc.ex] = true
		}
		if !c.mine() {
			continue
		}
		c.eval()
		ref := newRefDFA(pc.tree)
		var astD, nfaD *auto.DFA
		var errA, errN error
		pv, stack := safely(func() {
			var a *rast.AST
			a, errA = rast.Parse(pc.text)
			if errA == nil {
				astD = a.ToDFA()
			}
			var n *auto.NFA
			n, errN = nfa.Parse(pc.text)
			if errN == nil {
				nfaD = n.ToDFA()
			}
		})
		if pv != nil {
			c.inconclusive("panic (C14's business)")
			c.note("panic on %q: %v %s", pc.text, pv, firstLines(stack, 6))
			continue
		}
		if (errA == nil) != (errN == nil) {
			c.violate(violation{Case: pc.name, Input: pc.text, Observed: fmt.Sprintf("followpos route err=%v, NFA route err=%v", errA, errN), Expected: "both routes accept or both reject the pattern"})
			continue
		}
		if errA != nil {
			c.inconclusive("pattern rejected (C09's business)")
			continue
		}
		ea, en := fromAutoDFA(astD), fromAutoDFA(nfaD)
		c.setAdd("followpos_dfa_state_counts", fmt.Sprint(ea.nst))
		d1 := langCompare(ref, ea)
		d2 := langCompare(ref, en)
		d3 := langCompare(en, ea)
		c.count("product_states_explored", int64(d1.States+d2.States+d3.States))
		c.count("language_comparisons", 3)
		switch {
		case !d1.Equal:
			c.violate(violation{Sig: patternSig(pc.tree), Case: pc.name, Input: pc.text,
				Observed: fmt.Sprintf("followpos route: %q is %s", d1.Witness, accWord(!d1.AAccepts)),
				Expected: fmt.Sprintf("%q is %s by the documented meaning (NFA route agrees with reference: %v)", d1.Witness, accWord(d1.AAccepts), d2.Equal)})
		case !d3.Equal:
			c.violate(violation{Sig: patternSig(pc.tree), Case: pc.name, Input: pc.text,
				Observed: fmt.Sprintf("routes disagree on %q: NFA route %s", d3.Witness, accWord(d3.AAccepts)), Expected: "same language"})
		case !d2.Equal:
			// NFA route differs from the reference but equals followpos?? impossible if d1 equal; kept for completeness
			c.violate(violation{Sig: patternSig(pc.tree), Case: pc.name, Input: pc.text,
				Observed: fmt.Sprintf("NFA route: %q is %s", d2.Witness, accWord(!d2.AAccepts)), Expected: "documented meaning"})
		}
		if c10Nontrivial(pc.tree) {
			c.nontrivial(pc.text)
		}
		if c.res.Evaluations%89 == 1 {
			c.sample(map[string]any{"pattern": pc.text, "followpos_dfa_states": ea.nst, "nfa_route_dfa_states": en.nst})
		}
	}
	for k := range exh {
		c.exhaustive(k, true)
	}
}

func init() {
	auxCommands["popcount"] = func(args []string) int {
		for _, tier := range []string{"quick", "thorough"} {
			c := &ctx{prop: registry["C02"], tier: tier, seed: 1, of: 1, nontriv: map[string]struct{}{}, sets: map[string]map[string]struct{}{}}
			c.res.Counters = map[string]int64{}
			c.res.InconReasons = map[string]int64{}
			c.res.Exhaustive = map[string]bool{}
			for _, forC10 := range []bool{false, true} {
				pop := patternPopulation(c, forC10)
				by := map[string]int{}
				for _, p := range pop {
					k := p.name
					if i := strings.IndexAny(k, "0123456789/"); i > 0 {
						k = k[:i]
					}
					by[k]++
				}
				fmt.Println(tier, "c10:", forC10, len(pop), by)
			}
		}
		return 0
	}
}

func init() {
	auxCommands["pattime"] = func(args []string) int {
		c := &ctx{prop: registry["C02"], tier: "quick", seed: 1, of: 1, nontriv: map[string]struct{}{}, sets: map[string]map[string]struct{}{}}
		c.res.Counters = map[string]int64{}
		c.res.InconReasons = map[string]int64{}
		c.res.Exhaustive = map[string]bool{}
		pop := patternPopulation(c, false)
		for i := 0; i < len(pop); i += 37 {
			pc := pop[i]
			t0 := time.Now()
			_, _ = safely(func() { _, _ = nfaStages(pc.text) })
			t1 := time.Now()
			ref := newRefDFA(pc.tree)
			_ = ref
			var st []stageObs
			_, _ = safely(func() { st, _ = nfaStages(pc.text) })
			t2 := time.Now()
			for _, s := range st {
				langCompare(ref, s.a)
			}
			t3 := time.Now()
			if t3.Sub(t0) > 50*time.Millisecond {
				fmt.Printf("%-12s %-40q emerge=%v cmp=%v\n", pc.name, pc.text, t1.Sub(t0), t3.Sub(t2))
			}
		}
		return 0
	}
}

func init() {
	auxCommands["lang"] = func(args []string) int {
		for _, p := range args {
			n, err := nfa.Parse(p)
			if err != nil {
				fmt.Println(p, "ERR", err)
				continue
			}
			e := fromAutoNFA(n)
			var acc []string
			var rec func(s string, st int, d int)
			rec = func(s string, st int, d int) {
				if e.accepting(st) {
					acc = append(acc, fmt.Sprintf("%q", s))
				}
				if d == 0 {
					return
				}
				for _, r := range "ab-_0" {
					if t := e.step(st, r); t >= 0 {
						rec(s+string(r), t, d-1)
					}
				}
			}
			rec("", 0, 3)
			fmt.Println(p, "=>", acc)
		}
		return 0
	}
}

package main

// C20 - lexical and syntax errors are reported at the first offending token.

import (
	"bytes"
	"fmt"
	"os"
	"os/exec"
	"path/filepath"
	"regexp"
	"strings"
	"unicode/utf8"

	eparser "github.com/gardenbed/emerge/internal/ebnf/parser"
	east "github.com/gardenbed/emerge/internal/ebnf/parser/ast"
	"github.com/gardenbed/emerge/internal/ebnf/parser/spec"
)

func init() {
	register(&property{
		id:    "C20",
		level: "exploration",
		rule: "for ~40 (quick: 14) valid specifications in two layouts: EVERY single-token deletion, EVERY insertion and replacement by each of the 22 token kinds, and EVERY truncation, at every position; plus stray characters (# % & ' ~ ` etc.), lone @ $ \", unterminated string / pattern / comment at every token gap. " +
			"For each text that is no longer a specification the reference reader gives the first offending element; the error text of spec.Parse, ebnf ast.Parse and Parser.Parse (and of the CLI for a sample) must contain <file>:<line>:<col> of exactly that element; for a text that merely ends early it must not contain the position of any token present; " +
			"replacing everything after the offending element by 9 different tails (five of them with bytes that are not UTF-8, directly behind the offending element or further down) must not change the message. Bytes that are not UTF-8 (7 forms) after 15 kinds of separator (line breaks without indentation, comments spanning lines ...) at every token gap: the error must carry line:column of the first such byte. The same single-token edits after an EARLIER well-formedness defect (an unknown $NAME): the position of the first offending token must still be reported. non-trivial = offending element is not the first token; distinct by text.",
		assumptions: []string{"a text that has a syntax error is 'rejected for' it even when an earlier well-formedness defect (unknown $NAME) is present, as the unchanged spec.Parse does (it collects such defects and goes on); only spec.Parse, the CLI's entry point, is held to this, and other diagnostics may accompany the position", "first offending element per the reference reader R1 (greedy recursive descent = LR correct-prefix behaviour, cross-validated by C04 on all sequences to length 9/12)"},
		floorQuick:  10000, floorThorough: 200000,
		run: runC20,
	})
}

var posRe = regexp.MustCompile(regexp.QuoteMeta(fileName) + `:(\d+):(\d+)`)

type parseEntry struct {
	name string
	run  func(text string) error
}

var parseEntries = []parseEntry{
	{"spec.Parse", func(t string) error { _, err := spec.Parse(fileName, strings.NewReader(t)); return err }},
	{"ebnf ast.Parse", func(t string) error { _, err := east.Parse(fileName, strings.NewReader(t)); return err }},
	{"Parser.Parse", func(t string) error {
		p, err := eparser.New(fileName, strings.NewReader(t))
		if err != nil {
			return err
		}
		return p.Parse(nil, nil)
	}},
}

var kindSample = map[string]string{"=": "=", ";": ";", "|": "|", "(": "(", ")": ")", "[": "[", "]": "]", "{": "{", "}": "}", "{{": "{{", "}}": "}}", "<": "<", ">": ">",
	"grammar": "grammar", "@left": "@left", "@right": "@right", "@none": "@none", "IDENT": "zz", "TOKEN": "ZZ", "STRING": `"zz"`, "REGEX": `/zz/`, "PREDEF": "$ZZ"}

// c20Double is set while the texts carry a second, earlier defect of another kind (see runC20).
var c20Double bool

// c20Check runs all entry points on text and compares with the reference.
func c20Check(c *ctx, name, text string, tailTest bool) {
	rd := refRead(text)
	if rd.Scan.Masked {
		c.masked()
		return
	}
	c.eval()
	if !rd.Scan.Err && rd.ErrAt < 0 {
		c.count("mutations_that_are_still_specifications", 1)
		return
	}
	var wantLn, wantCol int
	endsEarly := false
	kind := ""
	switch {
	case rd.ErrAt >= 0 && rd.ErrAt < len(rd.Scan.Toks):
		t := rd.Scan.Toks[rd.ErrAt]
		wantLn, wantCol, kind = t.Line, t.Col, "syntax"
		if rd.ErrAt > 0 {
			c.nontrivial(text)
		}
	case rd.Scan.Err:
		wantLn, wantCol, kind = rd.Scan.ErrLn, rd.Scan.ErrCol, "lexical"
		if len(rd.Scan.Toks) > 0 {
			c.nontrivial(text)
		}
	default:
		endsEarly, kind = true, "ends-early"
		if len(rd.Scan.Toks) > 0 {
			c.nontrivial(text)
		}
	}
	c.count("texts_with_"+kind+"_error", 1)
	want := fmt.Sprintf("%s:%d:%d", fileName, wantLn, wantCol)
	msgs := map[string]string{}
	entries := parseEntries
	if c20Double {
		// with an earlier well-formedness defect only the tool's own entry point is held to the position of the syntax
		// error: the tree builder legitimately stops at the first callback error (C18), before the syntax error is reached
		entries = parseEntries[:1]
	}
	for _, e := range entries {
		var err error
		pv, _ := safely(func() { err = e.run(text) })
		if pv != nil {
			c.inconclusive("panic (C14's business)")
			continue
		}
		if err == nil {
			c.violate(violation{Case: name, Input: text, Observed: e.name + " accepted the text", Expected: "rejected: " + describeWant(kind, want, rd)})
			continue
		}
		msg := err.Error()
		msgs[e.name] = msg
		if endsEarly {
			// no position of a token that is present
			for _, m := range posRe.FindAllStringSubmatch(msg, -1) {
				for _, t := range rd.Scan.Toks {
					if m[1] == fmt.Sprint(t.Line) && m[2] == fmt.Sprint(t.Col) {
						c.violate(violation{Case: name, Input: text, Observed: e.name + ": " + msg, Expected: "the text merely ends early: no position of an (innocent) earlier token, here " + m[0]})
					}
				}
			}
			continue
		}
		if !strings.Contains(msg, want) || (!c20Double && positionsOtherThan(msg, wantLn, wantCol)) {
			c.violate(violation{Case: name, Input: text, Observed: e.name + ": " + msg, Expected: describeWant(kind, want, rd)})
		}
	}
	if c.res.Evaluations%1009 == 11 {
		c.sample(map[string]any{"text": text, "kind": kind, "expected_position": want, "message": msgs["spec.Parse"]})
	}
	if !tailTest || endsEarly {
		return
	}
	// nothing after the offending element may influence the message
	var cut int // rune offset just after the offending element
	rs := []rune(text)
	if kind == "syntax" {
		t := rd.Scan.Toks[rd.ErrAt]
		// end of token = start of next significant thing; recompute by scanning from its offset
		cut = t.Off + len([]rune(tokenSource(t)))
	} else {
		cut = rd.Scan.ErrOff + len([]rune(rd.Scan.ErrTxt))
	}
	if cut > len(rs) {
		return
	}
	prefix := string(rs[:cut])
	base := ""
	for i, tail := range []string{"\n", " ;\n", "\n grammar again ; start = ;\n", " \"x\" | \n/* open", "\n# ~", "\n\xff\n", "\xff", "\xc3\n;", " \n/* c */ x \xc3(\n", "\n\n\n// Latin-1: caf\xe9\n"} {
		if kind != "syntax" && !utf8.ValidString(tail[:1]) {
			// directly behind an INCOMPLETE lexical element (an open string, a lone $) the undecodable byte is itself the
			// first character no specification can continue with: which of the two is named is not judged
			continue
		}
		t2 := prefix + tail
		rd2 := refRead(t2)
		// precondition: the reference still sees the same first offending element
		same := false
		if kind == "syntax" {
			same = rd2.ErrAt == rd.ErrAt && !rd2.Scan.Masked
		} else {
			same = rd2.Scan.Err && rd2.Scan.ErrOff == rd.Scan.ErrOff && rd2.Scan.ErrTxt == rd.Scan.ErrTxt && rd2.ErrAt < 0
		}
		if !same {
			continue
		}
		var err error
		pv, _ := safely(func() { err = parseEntries[0].run(t2) })
		c.count("tail_variants_run", 1)
		if pv != nil || err == nil {
			continue
		}
		if i == 0 || base == "" {
			base = err.Error()
			continue
		}
		if err.Error() != base {
			c.violate(violation{Case: name + "/tail", Input: map[string]string{"prefix_through_offending_element": prefix, "tail": tail},
				Observed: err.Error(), Expected: "same message as with another tail: " + base})
		}
	}
}

// c20Invalid: a byte sequence that is not UTF-8 placed where everything before it is a viable prefix followed by a
// separator: it is the first offending element, and its line and column are those of its first byte.
func c20Invalid(c *ctx, name, prefix, sep, bad, tail string) {
	for _, r := range prefix {
		if r > 0x7E {
			return
		}
	}
	rd := refRead(prefix)
	if rd.Scan.Masked || rd.Scan.Err || (rd.ErrAt >= 0 && rd.ErrAt < len(rd.Scan.Toks)) {
		return // the prefix itself already has an offending element
	}
	c.eval()
	before := prefix + sep
	line, col := 1, 1
	for _, r := range before {
		if r == '\n' {
			line++
			col = 1
		} else {
			col++
		}
	}
	text := before + bad + tail
	want := fmt.Sprintf("%s:%d:%d", fileName, line, col)
	if line > 1 {
		c.nontrivial(text)
	}
	c.count("texts_with_invalid_utf8", 1)
	for _, e := range parseEntries {
		var err error
		pv, _ := safely(func() { err = e.run(text) })
		if pv != nil {
			c.inconclusive("panic (C14's business)")
			continue
		}
		if err == nil {
			c.violate(violation{Case: name, Input: text, Observed: e.name + " accepted the text", Expected: "rejected: bytes that are not UTF-8 at " + want})
			continue
		}
		if msg := err.Error(); !strings.Contains(msg, want) || positionsOtherThan(msg, line, col) {
			c.violate(violation{Case: name, Input: text, Observed: e.name + ": " + msg, Expected: "an error at " + want + " (the first byte that is not UTF-8; everything before it is a viable prefix)"})
		}
	}
}

func tokenSource(t rtok) string {
	switch t.Kind {
	case "STRING":
		return `"` + t.Lexeme + `"`
	case "REGEX":
		return "/" + t.Lexeme + "/"
	}
	return t.Lexeme
}

func positionsOtherThan(msg string, ln, col int) bool {
	for _, m := range posRe.FindAllStringSubmatch(msg, -1) {
		if m[1] != fmt.Sprint(ln) || m[2] != fmt.Sprint(col) {
			return true
		}
	}
	return false
}

func describeWant(kind, want string, rd rread) string {
	switch kind {
	case "syntax":
		return fmt.Sprintf("syntax error at %s (token #%d %q): everything before it is a viable prefix", want, rd.ErrAt, rd.Scan.Toks[rd.ErrAt].Lexeme)
	case "lexical":
		return fmt.Sprintf("lexical error at %s (stray element %q)", want, rd.Scan.ErrTxt)
	}
	return "rejected as ending too early, without the position of an earlier token"
}

func c20Bases(c *ctx) []*rgrammar {
	r := c.rng("bases")
	n := c.n(12, 150)
	var out []*rgrammar
	for i := 0; i < n; i++ {
		out = append(out, genSyntacticSpec(r, 2+r.intn(4), 1+r.intn(3)))
	}
	return out
}

func runC20(c *ctx) {
	r := c.rng("layouts")
	for bi, g := range c20Bases(c) {
		semiMask := r.u64()
		toks := specTokens(g, func(k int) bool { return semiMask>>(uint(k)%60)&1 == 1 })
		for li, lay := range []layout{{finalNL: true}, {seps: sepVaried, comments: true, finalNL: false}} {
			lr := newRng(c.seed, fmt.Sprintf("C20/lay/%d/%d", bi, li))
			render := func(ts []gtok) string {
				rr := *lr // same separator choices for every mutation of this base
				if li == 0 {
					return layoutTokens(ts, nil, lay)
				}
				return layoutTokens(ts, &rr, lay)
			}
			name := fmt.Sprintf("base%d/lay%d", bi, li)
			for pos := 0; pos <= len(toks); pos++ {
				// truncation
				if c.mine() {
					c20Check(c, name+"/trunc", render(toks[:pos]), false)
				}
				// deletion
				if pos < len(toks) && c.mine() {
					m := append(append([]gtok{}, toks[:pos]...), toks[pos+1:]...)
					c20Check(c, name+"/del", render(m), pos%5 == 0)
				}
				for ki, k := range tokenKinds {
					ins := gtok{k, kindSample[k]}
					if c.mine() {
						m := append(append(append([]gtok{}, toks[:pos]...), ins), toks[pos:]...)
						c20Check(c, name+"/ins", render(m), (pos+ki)%7 == 0)
					}
					if pos < len(toks) && c.mine() {
						m := append(append(append([]gtok{}, toks[:pos]...), ins), toks[pos+1:]...)
						c20Check(c, name+"/rep", render(m), (pos+ki)%7 == 0)
					}
				}
				// stray / unterminated lexical elements in the gap before token #pos
				for si, s := range []string{"#", "%", "&", "'", "~", "`", "!", "@", "$", "\"", "\"abc", "/abc", "/* open", "@lef", "$x", "é", "\\", "*", "+", "9"} {
					if !c.mine() {
						continue
					}
					m := append(append(append([]gtok{}, toks[:pos]...), gtok{"STRAY", s}), toks[pos:]...)
					c20Check(c, name+"/stray", render(m), (pos+si)%9 == 0)
				}
			}
		}
	}
	// bytes that are not UTF-8, after every kind of separator (line breaks without indentation, inside comments that span
	// lines, after blanks), at every token gap of a few bases
	{
		seps := []string{" ", "\n", "\n\n", "\n\n\n", "\r\n", "\n ", "\n\t", " \n", "// c\n", "/* c */", "/* c\n", "/* a\n b\n", "/*\n\n\n", "// c\n\n", " /* x */\n"}
		bads := []string{"\xff", "\xc3", "\xe2\x82", "\xc0\xaf", "\xed\xa0\x80", "\xf8", "\x80"}
		tails := []string{"", "\n", " ;\n", "\xff\n x = ;"}
		for bi, g := range c20Bases(c) {
			if bi >= c.n(3, 12) {
				break
			}
			toks := specTokens(g, nil)
			for pos := 0; pos <= len(toks); pos++ {
				prefix := layoutTokens(toks[:pos], nil, layout{})
				for si, sep := range seps {
					if pos == 0 && strings.TrimSpace(sep) == "" && sep != "" {
						// fine: leading blanks
					}
					for k, bad := range bads {
						if c.mine() {
							c20Invalid(c, fmt.Sprintf("invalid-utf8/base%d/%d", bi, pos), prefix, sep, bad, tails[(pos+si+k)%len(tails)])
						}
					}
				}
			}
		}
	}
	// unterminated comments and strings that span thousands of lines: the error belongs to the line where they START
	{
		for i, nl := range []int{10, 4095, 4096, 4097, 5000, 9000, 20000} {
			for j, body := range []string{"\n", "x\n", " * \n"} {
				if !c.mine() {
					continue
				}
				head := "grammar g;\nstart = \"a\" ;\n\n"
				for _, opener := range []string{"  /* never closed ", "start = /* "} {
					text := head + opener + strings.Repeat(body, nl)
					c20Check(c, fmt.Sprintf("long-open-comment/%d.%d", i, j), text, false)
					c20Check(c, fmt.Sprintf("long-open-comment-then-stray/%d.%d", i, j), head+"  /* closed after many lines "+strings.Repeat(body, nl)+"*/ #", false)
				}
				c.count("comments_spanning_thousands_of_lines", 2)
			}
		}
	}
	// a second, earlier fault of another kind (an unknown predefined name: a well-formedness defect, collected while
	// parsing) must not hide or replace the position of the first offending token
	{
		c20Double = true
		rr := c.rng("double")
		for bi, g := range c20Bases(c) {
			if bi >= c.n(4, 16) {
				break
			}
			toks := specTokens(g, nil)
			if len(toks) < 3 {
				continue
			}
			// after "grammar NAME [;]"
			at := 2
			if toks[2].Kind == ";" {
				at = 3
			}
			decl := []gtok{{"TOKEN", "ZQ"}, {"=", "="}, {"PREDEF", "$NOPE"}, {";", ";"}}
			withDecl := append(append(append([]gtok{}, toks[:at]...), decl...), toks[at:]...)
			name := fmt.Sprintf("double/base%d", bi)
			for pos := at + len(decl); pos <= len(withDecl); pos++ {
				if c.mine() {
					c20Check(c, name+"/trunc", layoutTokens(withDecl[:pos], nil, layout{finalNL: true}), false)
				}
				for _, k := range []string{")", "]", "}}", ">", "=", "@left", "grammar", "REGEX", "PREDEF", ";"} {
					if !c.mine() {
						continue
					}
					m := append(append(append([]gtok{}, withDecl[:pos]...), gtok{k, kindSample[k]}), withDecl[pos:]...)
					c20Check(c, name+"/ins", layoutTokens(m, nil, layout{finalNL: true}), false)
				}
				if c.mine() {
					s := pick(rr, []string{"#", "%", "'", "\"abc", "/* open", "@lef"})
					m := append(append(append([]gtok{}, withDecl[:pos]...), gtok{"STRAY", s}), withDecl[pos:]...)
					c20Check(c, name+"/stray", layoutTokens(m, nil, layout{finalNL: true}), false)
				}
			}
		}
	}
	c20Double = false
	c.exhaustive("every_single_token_edit_and_truncation_of_each_base", true)
	// CLI sample
	if c.shard == 0 {
		c20CLI(c)
	}
}

func c20CLI(c *ctx) {
	bin := filepath.Join(verifDir, "bin", "emerge")
	dir, err := os.MkdirTemp("", "verif-c20-")
	if err != nil {
		return
	}
	defer os.RemoveAll(dir)
	texts := []string{
		"grammar g;\nstart = \"a\" \"b\n;\n",
		"grammar g;\nstart = ( \"a\" ;\n",
		"grammar g;\nT = ;\nstart = T;\n",
		"grammar g;\n\nstart = a | # b;\n",
		"grammar g; start = \"a\"",
		"grammar g;\n@left\nstart = \"a\";\n",
		"grammar g;\nstart = \"a\" ;\n/* never closed\n",
	}
	names := make([]string, len(texts))
	for i := range names {
		names[i] = fileName
	}
	// percent signs in the file name, in the offending token and in the unterminated element (a diagnostic is text, never
	// a format string)
	for _, x := range []struct{ name, text string }{
		{"rules%20v2.ebnf", "grammar g;\nstart = ( \"a\" ;\n"},
		{"100%s.ebnf", "grammar g;\nstart = \"a\" # ;\n"},
		{"%d%d%v.ebnf", "grammar g;\nT = ;\n"},
		{fileName, "grammar g;\nstart = \"a\" ;\n\"%d%s\" = ;\n"},
		{fileName, "grammar g;\nstart = \"a\" \"100%d\n;\n"},
		{fileName, "grammar g;\nstart = x /%v%!/ ;\n"},
		{"a%.ebnf", "grammar g;\nstart = \"50%\" ) ;\n"},
	} {
		names = append(names, x.name)
		texts = append(texts, x.text)
	}
	for i, text := range texts {
		c.eval()
		rd := refRead(text)
		fileName := names[i]
		f := filepath.Join(dir, fileName)
		_ = os.WriteFile(f, []byte(text), 0o644)
		cmd := exec.Command(bin, "-out", dir, f)
		var out bytes.Buffer
		cmd.Stdout, cmd.Stderr = &out, &out
		runErr := cmd.Run()
		msg := out.String()
		c.count("cli_runs", 1)
		if runErr == nil {
			c.violate(violation{Case: fmt.Sprintf("cli%d", i), Input: text, Observed: "exit status 0", Expected: "rejected"})
			continue
		}
		var ln, col int
		switch {
		case rd.ErrAt >= 0 && rd.ErrAt < len(rd.Scan.Toks):
			ln, col = rd.Scan.Toks[rd.ErrAt].Line, rd.Scan.Toks[rd.ErrAt].Col
		case rd.Scan.Err:
			ln, col = rd.Scan.ErrLn, rd.Scan.ErrCol
		default:
			continue
		}
		want := fmt.Sprintf("%s:%d:%d", fileName, ln, col)
		c.nontrivial(text)
		if !strings.Contains(msg, want) {
			c.violate(violation{Case: fmt.Sprintf("cli%d", i), Input: map[string]string{"file": fileName, "text": text}, Observed: "CLI output: " + msg, Expected: "names " + want})
		} else if strings.Contains(msg, "%!") && !strings.Contains(text, "%!") || strings.Contains(msg, "(MISSING)") || strings.Contains(msg, "(EXTRA ") {
			c.violate(violation{Case: fmt.Sprintf("cli%d", i), Input: map[string]string{"file": fileName, "text": text}, Observed: "CLI output: " + msg, Expected: "the diagnostic as text (it was used as a format string)"})
		}
	}
}

package main

// C16 - CLI contract: success iff the package was fully written; flags honoured; existing files untouched.
// Real binary, private sandbox directories, before/after snapshots, strace as monitor and as fault injector.

import (
	"bytes"
	"crypto/sha256"
	"encoding/hex"
	"fmt"
	"os"
	"os/exec"
	"path/filepath"
	"regexp"
	"sort"
	"strconv"
	"strings"
	"unicode"

	"github.com/gardenbed/charm/ui"

	"github.com/gardenbed/emerge/internal/ebnf/parser/spec"
	"github.com/gardenbed/emerge/internal/generate/golang"
)

func init() {
	register(&property{
		id:    "C16",
		level: "fault_enumeration",
		rule: "runs of the real binary: flag sets {none, -out, -name, -debug, -verbose, -help, -version, combinations} x input classes {valid, lexical error, syntax error, ill-formed, overlapping definitions, LALR conflict, missing file, directory as file} x pre-states of the output location {out missing, out a file, out a symlink to a directory, <name> missing, an empty directory, a directory holding some target files and a bystander, a file, a dangling symlink, a symlink to a directory} x ~30 names (identifiers, keywords, predeclared, _, digits first, non-ASCII, with / and ..). " +
			"Per run: exit status, stdout/stderr, recursive snapshot (type, mode, size, sha256, link target) of the sandbox before and after, and - under strace -f - every openat/creat/mkdir*/unlink*/rename*/rmdir/truncate/chmod/link/symlink/write with path, flags and result. " +
			"Fault enumeration: for valid specifications EVERY k-th write (and each openat of an output file, and the mkdirat) is made to fail with ENOSPC / EIO / EACCES by strace's injector. " +
			"Oracle: status 0 <=> 'Successful' printed <=> (accepted in-process and no fault hit an output file) and then all six files exist under <out>/<name> byte-identical to a fault-free in-process generation; -name names directory and package clause; an unusable name => non-zero and NO mutating syscall; every pre-existing entry unchanged; no unlink/rename/truncate/chmod ever; every write-mode open is O_CREAT|O_EXCL below <out>/<name>/ on a path that did not exist; the only mkdir is <out>/<name>. " +
			"non-trivial = run reaches the generator (valid input) or has a non-default pre-state or a fault; distinct by (flags, input, pre-state, name, fault).",
		assumptions: []string{
			"flags are given before the file argument (the documented usage; Go's flag package stops at the first non-flag)",
			"strace -f observes every thread of the Go binary; 'when=K' counts per thread, so the log is consulted to see which call was actually failed",
		},
		floorQuick: 300, floorThorough: 3000,
		serial: false,
		run:    runC16,
	})
}

type fsEntry struct {
	Type string // f | d | l
	Mode string
	Size int64
	Sum  string
	Link string
}

func snapshotTree(root string) map[string]fsEntry {
	out := map[string]fsEntry{}
	_ = filepath.Walk(root, func(p string, info os.FileInfo, err error) error {
		if err != nil {
			return nil
		}
		rel, _ := filepath.Rel(root, p)
		li, lerr := os.Lstat(p)
		if lerr != nil {
			return nil
		}
		e := fsEntry{Mode: li.Mode().String()}
		switch {
		case li.Mode()&os.ModeSymlink != 0:
			e.Type = "l"
			e.Link, _ = os.Readlink(p)
		case li.IsDir():
			e.Type = "d"
		default:
			e.Type = "f"
			e.Size = li.Size()
			if b, err := os.ReadFile(p); err == nil {
				h := sha256.Sum256(b)
				e.Sum = hex.EncodeToString(h[:8])
			}
		}
		out[rel] = e
		return nil
	})
	return out
}

var emittedFiles = []string{"errors.go", "types.go", "stack.go", "input.go", "lexer.go", "parser.go"}

// referenceGeneration: fault-free in-process generation (nil when the specification is not accepted end to end).
func referenceGeneration(text, name string) (map[string]string, string) {
	dir, err := os.MkdirTemp("", "verif-c16ref-")
	if err != nil {
		return nil, "mktemp"
	}
	defer os.RemoveAll(dir)
	var files map[string]string
	why := ""
	pv, _ := safely(func() {
		s, err := spec.Parse("in.ebnf", strings.NewReader(text))
		if err != nil {
			why = "spec.Parse: " + firstLines(err.Error(), 2)
			return
		}
		if name != "" {
			s.Name = name
		}
		if err := golang.Generate(ui.NewNop(), &golang.Params{Path: dir, Spec: s}); err != nil {
			why = "Generate: " + firstLines(err.Error(), 2)
			return
		}
		files = map[string]string{}
		for _, f := range emittedFiles {
			b, err := os.ReadFile(filepath.Join(dir, s.Name, f))
			if err != nil {
				why = "missing " + f
				files = nil
				return
			}
			files[f] = string(b)
		}
	})
	if pv != nil {
		return nil, fmt.Sprintf("panic: %v", pv)
	}
	return files, why
}

type sysEvent struct {
	Call   string
	Path   string
	Flags  string
	Fd     int
	Ret    string
	Failed bool
	Inject bool
}

var (
	reOpenat = regexp.MustCompile(`^\d+\s+openat\(AT_FDCWD, "((?:[^"\\]|\\.)*)", ([A-Z_|0-9]+)(?:, \d+)?\)\s+= (-?\d+)(.*)$`)
	reWrite  = regexp.MustCompile(`^\d+\s+write\((\d+), .*\)\s+= (-?\d+)(.*)$`)
	reRead   = regexp.MustCompile(`^\d+\s+read\((\d+), .*\)\s+= (-?\d+)(.*)$`)
	reClose  = regexp.MustCompile(`^\d+\s+close\((\d+)\)`)
	rePathOp = regexp.MustCompile(`^\d+\s+(creat|mkdir|mkdirat|unlink|unlinkat|rename|renameat|renameat2|rmdir|truncate|ftruncate|chmod|fchmod|fchmodat|link|linkat|symlink|symlinkat)\((.*)\)\s+= (-?\d+)(.*)$`)
	reQuoted = regexp.MustCompile(`"((?:[^"\\]|\\.)*)"`)
)

// unescapeStrace resolves the C-style escapes strace uses inside quoted strings.
func unescapeStrace(s string) string {
	if !strings.Contains(s, "\\") {
		return s
	}
	var b []byte
	for i := 0; i < len(s); i++ {
		if s[i] != '\\' || i+1 >= len(s) {
			b = append(b, s[i])
			continue
		}
		i++
		switch c := s[i]; {
		case c >= '0' && c <= '7':
			v := 0
			j := i
			for ; j < len(s) && j < i+3 && s[j] >= '0' && s[j] <= '7'; j++ {
				v = v*8 + int(s[j]-'0')
			}
			b = append(b, byte(v))
			i = j - 1
		case c == 'n':
			b = append(b, '\n')
		case c == 't':
			b = append(b, '\t')
		case c == 'r':
			b = append(b, '\r')
		case c == 'x' && i+2 < len(s):
			v, _ := strconv.ParseUint(s[i+1:i+3], 16, 8)
			b = append(b, byte(v))
			i += 2
		default:
			b = append(b, c)
		}
	}
	return string(b)
}

func parseStrace(log string) []sysEvent {
	var evs []sysEvent
	fdPath := map[int]string{}
	// with -f a call may be printed in two pieces: "pid call(args <unfinished ...>" ... "pid <... call resumed>rest"
	pending := map[string]string{}
	var lines []string
	for _, line := range strings.Split(log, "\n") {
		pid := line
		if i := strings.IndexAny(line, " \t"); i > 0 {
			pid = line[:i]
		}
		if strings.HasSuffix(line, "<unfinished ...>") {
			pending[pid] = strings.TrimSuffix(line, "<unfinished ...>")
			continue
		}
		if i := strings.Index(line, "<... "); i >= 0 {
			if j := strings.Index(line[i:], "resumed>"); j >= 0 {
				if pre, ok := pending[pid]; ok {
					delete(pending, pid)
					line = pre + line[i+j+len("resumed>"):]
				}
			}
		}
		lines = append(lines, line)
	}
	for _, line := range lines {
		if m := reOpenat.FindStringSubmatch(line); m != nil {
			fd, _ := strconv.Atoi(m[3])
			e := sysEvent{Call: "openat", Path: unescapeStrace(m[1]), Flags: m[2], Fd: fd, Ret: m[3], Failed: fd < 0, Inject: strings.Contains(m[4], "INJECTED")}
			if fd >= 0 {
				fdPath[fd] = e.Path
			}
			evs = append(evs, e)
			continue
		}
		if m := reWrite.FindStringSubmatch(line); m != nil {
			fd, _ := strconv.Atoi(m[1])
			r, _ := strconv.Atoi(m[2])
			evs = append(evs, sysEvent{Call: "write", Fd: fd, Path: fdPath[fd], Ret: m[2], Failed: r < 0, Inject: strings.Contains(m[3], "INJECTED")})
			continue
		}
		if m := reRead.FindStringSubmatch(line); m != nil {
			fd, _ := strconv.Atoi(m[1])
			r, _ := strconv.Atoi(m[2])
			evs = append(evs, sysEvent{Call: "read", Fd: fd, Path: fdPath[fd], Ret: m[2], Failed: r < 0, Inject: strings.Contains(m[3], "INJECTED")})
			continue
		}
		if m := reClose.FindStringSubmatch(line); m != nil {
			fd, _ := strconv.Atoi(m[1])
			delete(fdPath, fd)
			continue
		}
		if m := rePathOp.FindStringSubmatch(line); m != nil {
			p := ""
			if q := reQuoted.FindStringSubmatch(m[2]); q != nil {
				p = unescapeStrace(q[1])
			}
			r, _ := strconv.Atoi(m[3])
			evs = append(evs, sysEvent{Call: m[1], Path: p, Flags: m[2], Ret: m[3], Failed: r < 0, Inject: strings.Contains(m[4], "INJECTED")})
		}
	}
	return evs
}

type c16Run struct {
	name     string
	text     string // specification text ("" = no file / special)
	fileKind string // valid | lexical | syntax | illformed | overlap | conflict | missing | dir
	flags    []string
	pkgName  string // -name value ("" = none)
	outKind  string // ok | missing | file | symlink
	pkgPre   string // none | emptydir | dirwithfiles | file | dangling | symlinkdir
	inject   string // strace inject expression ("" = none)
	gramName string // the name the specification declares, for generated specifications
	useTrace bool
}

const c16Valid = "grammar calc;\nNUM = /[0-9]+/\nWS = $WS\n@left \"*\"\n@left \"+\"\nstart = expr;\nexpr = expr \"+\" expr | expr \"*\" expr | \"(\" expr \")\" | NUM;\n"
const c16Valid2 = "grammar kw;\nID = /[a-z]+/\nstart = {stmt};\nstmt = \"if\" ID | \"iffy\" | ID \"=\" ID \";\";\n"

var c16Inputs = map[string]string{
	"valid":     c16Valid,
	"valid2":    c16Valid2,
	"lexical":   "grammar calc;\nstart = # ;\n",
	"syntax":    "grammar calc;\nstart = ( ;\n",
	"illformed": "grammar calc;\nstart = UNDEF;\n",
	"overlap":   "grammar calc;\nAA = /a+/\nBB = /a*/\nstart = AA BB;\n",
	"conflict":  "grammar calc;\nstart = e;\ne = e \"+\" e | \"n\";\n",
	// valid specifications without any terminal (the language {empty string}): the whole package is still due
	"valid3": "grammar calc;\nstart = ;\n",
	// rejected with exactly 256 / 512 / 255 problems (an exit status is taken modulo 256)
	"illformed256": "grammar calc;\nstart = " + c16Undefined(256) + ";\n",
	"illformed512": "grammar calc;\nstart = " + c16Undefined(512) + ";\n",
	"illformed255": "grammar calc;\nstart = " + c16Undefined(255) + ";\n",
	"valid4": "grammar calc;\nstart = head tail;\nhead = ;\ntail = | ;\n",
}

func c16Undefined(n int) string {
	var b strings.Builder
	for i := 0; i < n; i++ {
		fmt.Fprintf(&b, "T%d ", i)
	}
	return b.String()
}

// c16Large builds specifications of more than 1 MiB: a valid head, padding made of comments and blank lines, and a tail
// that is valid (a rule the head refers to) or broken. Whatever is at the end of a long file counts like the beginning.
func c16Large(tail string, padBytes int) string {
	var b strings.Builder
	b.WriteString("grammar calc;\nNUM = /[0-9]+/\nstart = NUM rest;\n")
	line := "// padding padding padding padding padding padding padding padding\n"
	for b.Len() < padBytes {
		b.WriteString(line)
	}
	b.WriteString(tail)
	return b.String()
}

func c16Execute(c *ctx, bin string, r c16Run) {
	c.eval()
	sb, err := os.MkdirTemp("", "verif-c16-")
	if err != nil {
		c.inconclusive("mktemp")
		return
	}
	defer func() {
		_ = filepath.Walk(sb, func(p string, info os.FileInfo, err error) error {
			if err == nil && info.IsDir() {
				_ = os.Chmod(p, 0o755)
			}
			return nil
		})
		_ = os.RemoveAll(sb)
	}()
	sb, _ = filepath.EvalSymlinks(sb)
	// input
	specPath := filepath.Join(sb, "in.ebnf")
	switch r.fileKind {
	case "missing":
		specPath = filepath.Join(sb, "nosuch.ebnf")
	case "dir":
		specPath = filepath.Join(sb, "adir")
		_ = os.Mkdir(specPath, 0o755)
	default:
		_ = os.WriteFile(specPath, []byte(r.text), 0o644)
	}
	// bystanders
	_ = os.WriteFile(filepath.Join(sb, "bystander.txt"), []byte("keep me"), 0o600)
	// output location
	out := filepath.Join(sb, "out")
	realOut := out
	switch r.outKind {
	case "ok":
		_ = os.Mkdir(out, 0o755)
	case "missing":
	case "file":
		_ = os.WriteFile(out, []byte("i am a file"), 0o644)
	case "symlink":
		realOut = filepath.Join(sb, "realout")
		_ = os.Mkdir(realOut, 0o755)
		_ = os.Symlink(realOut, out)
	}
	if strings.HasPrefix(r.outKind, "tilde:") {
		// a relative directory literally called "~gen" (etc.) below the working directory, and HOME=<sandbox>/home with
		// "gen" (etc.) inside it
		rel := strings.TrimPrefix(r.outKind, "tilde:")
		out = filepath.Join(sb, rel)
		realOut = out
		_ = os.MkdirAll(out, 0o755)
		home := filepath.Join(sb, "home")
		_ = os.MkdirAll(filepath.Join(home, strings.TrimPrefix(strings.TrimPrefix(rel, "~"), "/")), 0o755)
	}
	effName := r.pkgName
	if effName == "" && r.gramName != "" {
		effName = r.gramName
	}
	if effName == "" {
		effName = "calc"
		if strings.HasPrefix(r.text, "grammar kw") {
			effName = "kw"
		}
	}
	pkgDir := filepath.Join(realOut, effName)
	if r.outKind == "ok" || r.outKind == "symlink" || strings.HasPrefix(r.outKind, "tilde:") {
		_ = os.WriteFile(filepath.Join(realOut, "neighbour.go"), []byte("package neighbour\n"), 0o644)
		if !strings.ContainsAny(effName, "/\x00") && effName != "." && effName != ".." && effName != "" {
			switch r.pkgPre {
			case "emptydir":
				_ = os.Mkdir(pkgDir, 0o755)
			case "dirwithfiles":
				_ = os.Mkdir(pkgDir, 0o755)
				_ = os.WriteFile(filepath.Join(pkgDir, "lexer.go"), []byte("// hand written\npackage mine\n"), 0o644)
				_ = os.WriteFile(filepath.Join(pkgDir, "NOTES.txt"), []byte("notes"), 0o644)
			case "file":
				_ = os.WriteFile(pkgDir, []byte("a file in the way"), 0o644)
			case "dangling":
				_ = os.Symlink(filepath.Join(sb, "nowhere"), pkgDir)
			case "symlinkdir":
				target := filepath.Join(sb, "elsewhere")
				_ = os.Mkdir(target, 0o755)
				_ = os.WriteFile(filepath.Join(target, "types.go"), []byte("package elsewhere\n"), 0o644)
				_ = os.Symlink(target, pkgDir)
			}
		}
	}
	before := snapshotTree(sb)
	args := []string{}
	args = append(args, r.flags...)
	if strings.HasPrefix(r.outKind, "tilde:") {
		args = append(args, "-out", strings.TrimPrefix(r.outKind, "tilde:"))
	} else if r.outKind != "default" {
		args = append(args, "-out", out)
	}
	if r.pkgName != "" || strings.Contains(r.name, "emptyname") {
		args = append(args, "-name", r.pkgName)
	}
	if r.fileKind != "nofile" {
		args = append(args, specPath)
	}
	var cmd *exec.Cmd
	traceFile := filepath.Join(os.TempDir(), fmt.Sprintf("verif-c16-trace-%d-%d", os.Getpid(), c.res.Evaluations))
	if r.useTrace {
		sargs := []string{"-f", "-qq", "-s", "0", "-e", "trace=openat,creat,mkdir,mkdirat,unlink,unlinkat,rename,renameat,renameat2,rmdir,truncate,ftruncate,chmod,fchmod,fchmodat,link,linkat,symlink,symlinkat,write,close,read"}
		if r.inject != "" {
			sargs = append(sargs, "-e", "inject="+r.inject)
		}
		sargs = append(sargs, "-o", traceFile, bin)
		cmd = exec.Command("strace", append(sargs, args...)...)
	} else {
		cmd = exec.Command(bin, args...)
	}
	cmd.Dir = sb
	cmd.Env = append(os.Environ(), "HOME="+filepath.Join(sb, "home"))
	var outBuf bytes.Buffer
	cmd.Stdout, cmd.Stderr = &outBuf, &outBuf
	runErr := cmd.Run()
	exit := 0
	if ee, ok := runErr.(*exec.ExitError); ok {
		exit = ee.ExitCode()
	} else if runErr != nil {
		c.inconclusive("cannot run: " + runErr.Error())
		return
	}
	output := stripANSI(outBuf.String())
	after := snapshotTree(sb)
	var evs []sysEvent
	if r.useTrace {
		b, err := os.ReadFile(traceFile)
		_ = os.Remove(traceFile)
		if err != nil {
			c.inconclusive("strace produced no log")
			return
		}
		evs = parseStrace(string(b))
		c.count("syscalls_observed", int64(len(evs)))
		// every injected failure must have been understood, otherwise the run cannot be judged
		parsedInj := 0
		for _, e := range evs {
			if e.Inject {
				parsedInj++
			}
		}
		if raw := strings.Count(string(b), "(INJECTED)"); raw != parsedInj {
			c.masked()
			c.count("runs_with_an_injected_call_the_log_parser_could_not_attribute", 1)
			c.note("unattributed injected call in: %s", firstLines(grepLines(string(b), "INJECTED"), 3))
			return
		}
	}
	desc := map[string]any{"args": args, "input": r.fileKind, "out": r.outKind, "package_dir_before": r.pkgPre, "inject": r.inject}
	bad := func(obs, exp string) {
		c.violate(violation{Case: r.name, Input: desc, Observed: obs, Expected: exp, Note: "output: " + firstLines(output, 8)})
	}
	announced := strings.Contains(output, "Successful")
	helpOrVersion := false
	for _, f := range r.flags {
		if f == "-help" || f == "-version" || f == "-h" {
			helpOrVersion = true
		}
	}
	c.nontrivial(fmt.Sprint(desc))
	// (4) pre-existing entries unchanged
	for p, e := range before {
		a, ok := after[p]
		if !ok {
			bad("pre-existing "+p+" was deleted", "a run never modifies, truncates or deletes anything that existed before")
			return
		}
		if a != e {
			bad(fmt.Sprintf("pre-existing %s changed: %+v -> %+v", p, e, a), "unchanged")
			return
		}
	}
	// which fault was actually applied, and did it hit an output file?
	faultOnOutput := false
	faultAny := false
	faultOnConsole := false
	faultOnInput, faultOnOtherRead := false, false
	for _, e := range evs {
		if e.Inject && e.Call == "read" {
			if e.Path != "" && absIn(sb, e.Path) == specPath {
				faultOnInput = true
			} else {
				faultOnOtherRead = true // the runtime probing /sys, /proc ...: not the tool's business
			}
			continue
		}
		if e.Inject && e.Call == "write" && e.Fd <= 2 {
			faultOnConsole = true // a message could not be printed: what was announced is not observable
		}
		if e.Inject {
			faultAny = true
			switch e.Call {
			case "read":
			case "write":
				if e.Fd > 2 && strings.HasSuffix(e.Path, ".go") {
					faultOnOutput = true
				}
			case "openat":
				// the specification itself or an output file (not the runtime's own probing of /sys, /proc ...)
				if strings.HasPrefix(absIn(sb, e.Path), sb) {
					faultOnOutput = true
				}
			default:
				faultOnOutput = true
			}
		}
	}
	if r.inject != "" {
		if faultAny {
			c.count("faults_injected", 1)
		} else {
			c.count("fault_points_beyond_the_last_call", 1)
		}
	}
	// syscall-level policy
	pkgAbs := pkgDir
	mkdirs := 0
	for _, e := range evs {
		if e.Inject {
			continue
		}
		switch e.Call {
		case "unlink", "unlinkat", "rename", "renameat", "renameat2", "rmdir", "truncate", "ftruncate", "chmod", "fchmod", "fchmodat", "link", "linkat", "symlink", "symlinkat":
			if e.Path == "" || strings.HasPrefix(absIn(sb, e.Path), sb) {
				bad(fmt.Sprintf("syscall %s(%s)", e.Call, e.Flags), "never unlink / rename / truncate / chmod / link")
				return
			}
		case "mkdir", "mkdirat":
			if e.Failed {
				continue
			}
			mkdirs++
			if absIn(sb, e.Path) != pkgAbs && absIn(sb, e.Path) != filepath.Join(out, effName) {
				bad("mkdir "+e.Path, "the only directory created is <out>/<name>")
				return
			}
		case "openat", "creat":
			writeMode := e.Call == "creat" || strings.Contains(e.Flags, "O_WRONLY") || strings.Contains(e.Flags, "O_RDWR") || strings.Contains(e.Flags, "O_CREAT") || strings.Contains(e.Flags, "O_TRUNC") || strings.Contains(e.Flags, "O_APPEND")
			if !writeMode {
				continue
			}
			ap := absIn(sb, e.Path)
			if !strings.HasPrefix(ap, sb) {
				continue // /dev/null, /proc ... outside the sandbox
			}
			if !strings.Contains(e.Flags, "O_CREAT") || !strings.Contains(e.Flags, "O_EXCL") || strings.Contains(e.Flags, "O_TRUNC") {
				bad(fmt.Sprintf("openat(%s, %s)", e.Path, e.Flags), "every write-mode open is O_CREAT|O_EXCL")
				return
			}
			okDir := filepath.Dir(ap) == pkgAbs || filepath.Dir(ap) == filepath.Join(out, effName)
			if !okDir {
				bad("write-mode open of "+e.Path, "only below <out>/<name>/")
				return
			}
			if rel, err := filepath.Rel(sb, ap); err == nil {
				if _, existed := before[rel]; existed && !e.Failed {
					bad("write-mode open of pre-existing "+e.Path+" succeeded", "only files that did not exist")
					return
				}
			}
		}
	}
	if helpOrVersion {
		if len(after) != len(before) {
			bad("-help/-version created files", "nothing is written")
		}
		return
	}
	// expectation
	nameUsable := isUsableGoPackageName(effName)
	var ref map[string]string
	refWhy := ""
	expectSuccess := false
	if r.text != "" && (r.fileKind == "valid" || r.fileKind == "valid2" || r.fileKind == "valid3" || r.fileKind == "valid4" || r.fileKind == "large" || r.fileKind == "gen" || r.fileKind == "lexical" || r.fileKind == "syntax" || r.fileKind == "illformed" || r.fileKind == "illformed256" || r.fileKind == "illformed512" || r.fileKind == "illformed255" || r.fileKind == "overlap" || r.fileKind == "conflict") {
		n := r.pkgName
		if !nameUsable {
			n = ""
		}
		ref, refWhy = referenceGeneration(r.text, n)
		expectSuccess = ref != nil && nameUsable && (r.outKind == "ok" || r.outKind == "symlink" || strings.HasPrefix(r.outKind, "tilde:")) && r.pkgPre == "none" && !faultOnOutput && !faultOnInput
	}
	if faultOnOtherRead {
		c.masked()
		c.count("read_faults_that_hit_the_runtime_s_own_probing_not_judged", 1)
		return
	}
	if faultOnInput {
		c.count("read_faults_on_the_specification_file", 1)
	}
	if faultOnConsole {
		c.count("faults_that_hit_a_console_write_announcement_not_judged", 1)
		announced = exit == 0
	}
	if (exit == 0) != announced {
		bad(fmt.Sprintf("exit status %d, success announced: %v", exit, announced), "status 0 <=> 'Successful' printed")
		return
	}
	if expectSuccess != (exit == 0) {
		if r.inject != "" && faultAny && !faultOnOutput && exit != 0 {
			// a failed write to stdout may legitimately... no: progress output failing must not fail the run? the
			// property does not say; not judged.
			c.masked()
			return
		}
		bad(fmt.Sprintf("exit status %d", exit), fmt.Sprintf("success expected: %v (in-process reference: %s; name usable: %v; fault on output file: %v; read fault on the specification: %v)", expectSuccess, orOK(refWhy), nameUsable, faultOnOutput, faultOnInput))
		return
	}
	if exit == 0 {
		for _, f := range emittedFiles {
			b, err := os.ReadFile(filepath.Join(pkgDir, f))
			if err != nil {
				bad("exit 0 but "+f+" is missing under <out>/<name>", "all six files written")
				return
			}
			if string(b) != ref[f] {
				bad("exit 0 but "+f+" differs from a fault-free generation: "+firstDiffLine(string(b), ref[f]), "completely written, byte-identical")
				return
			}
			if !strings.HasPrefix(string(b), "package "+effName+"\n") {
				bad(f+" starts with "+firstLines(string(b), 1), "package "+effName)
				return
			}
		}
		c.count("successful_runs_fully_verified", 1)
	}
	if !nameUsable && r.text != "" && r.fileKind == "valid" {
		// rejected before anything is created
		for p := range after {
			if _, ok := before[p]; !ok {
				bad("unusable name but "+p+" was created", "rejected before anything is created")
				return
			}
		}
		for _, e := range evs {
			if (e.Call == "mkdir" || e.Call == "mkdirat" || (e.Call == "openat" && strings.Contains(e.Flags, "O_CREAT"))) && strings.HasPrefix(absIn(sb, e.Path), sb) {
				bad("unusable name but a mutating syscall was issued: "+e.Call+" "+e.Path, "no filesystem-mutating syscall at all")
				return
			}
		}
	}
	if len(c.res.Samples) < 6 && (c.res.Evaluations%37 == 1) {
		c.sample(map[string]any{"run": desc, "exit": exit, "announced": announced, "syscalls": len(evs), "new_entries": len(after) - len(before)})
	}
}

func orOK(s string) string {
	if s == "" {
		return "accepted"
	}
	return s
}

func absIn(base, p string) string {
	if filepath.IsAbs(p) {
		return filepath.Clean(p)
	}
	return filepath.Clean(filepath.Join(base, p))
}

var goKeywordsAndPredeclared = map[string]bool{}

func init() {
	for _, w := range strings.Fields("break default func interface select case defer go map struct chan else goto package switch const fallthrough if range type continue for import return var " +
		"any bool byte comparable complex64 complex128 error float32 float64 int int8 int16 int32 int64 rune string uint uint8 uint16 uint32 uint64 uintptr true false iota nil " +
		"append cap clear close complex copy delete imag len make max min new panic print println real recover") {
		goKeywordsAndPredeclared[w] = true
	}
}

// isUsableGoPackageName: a Go identifier that is neither blank, nor a keyword, nor a predeclared identifier.
func isUsableGoPackageName(n string) bool {
	if n == "" || n == "_" || goKeywordsAndPredeclared[n] {
		return false
	}
	for i, r := range n {
		letter := r == '_' || (r >= 'a' && r <= 'z') || (r >= 'A' && r <= 'Z') || (r > 0x7F && isUnicodeLetter(r))
		digit := (r >= '0' && r <= '9') || (r > 0x7F && isUnicodeDigit(r))
		if !(letter || (i > 0 && digit)) {
			return false
		}
	}
	return true
}

func runC16(c *ctx) {
	bin := filepath.Join(verifDir, "bin", "emerge")
	if _, err := exec.LookPath("strace"); err != nil {
		c.inconclusive("strace not available")
		return
	}
	var runs []c16Run
	add := func(r c16Run) { runs = append(runs, r) }
	// (A) input classes x flags
	flagSets := [][]string{nil, {"-debug"}, {"-verbose"}, {"-debug", "-verbose"}}
	kinds := []string{"valid", "valid2", "valid3", "valid4", "lexical", "syntax", "illformed", "illformed256", "illformed512", "illformed255", "overlap", "conflict", "missing", "dir"}
	for _, k := range kinds {
		for fi, fs := range flagSets {
			add(c16Run{name: fmt.Sprintf("class/%s/f%d", k, fi), text: c16Inputs[k], fileKind: k, flags: fs, outKind: "ok", pkgPre: "none", useTrace: fi%2 == 0})
			add(c16Run{name: fmt.Sprintf("class/%s/f%d/named", k, fi), text: c16Inputs[k], fileKind: k, flags: fs, pkgName: "mypkg", outKind: "ok", pkgPre: "none", useTrace: fi%2 == 1})
		}
	}
	for _, fs := range [][]string{{"-help"}, {"-version"}, {"-help", "-version"}, {"-h"}} {
		add(c16Run{name: "info/" + strings.Join(fs, ""), text: c16Valid, fileKind: "valid", flags: fs, outKind: "ok", pkgPre: "none", useTrace: true})
	}
	add(c16Run{name: "nofile", fileKind: "nofile", outKind: "ok", pkgPre: "none", useTrace: true})
	// (A') files larger than 1 MiB whose last lines decide (valid: a rule the head needs; broken in three ways)
	for pi, pad := range []int{1<<20 - 200, 1<<20 + 10, 1<<20 + 70000, 3 << 20} {
		for ti, tail := range []string{"rest = \"+\" NUM | ;\n", "rest = ( ;\n", "rest = # ;\n", "rest = UNDEFINED ;\n", ""} {
			if c.quick() && (pi+ti)%2 == 1 {
				continue
			}
			add(c16Run{name: fmt.Sprintf("large/%d/%d", pad, ti), text: c16Large(tail, pad), fileKind: "large", outKind: "ok", pkgPre: "none", useTrace: ti%2 == 0})
		}
	}
	// (A'') output directories whose names begin with a tilde are ordinary relative names (no shell is involved); HOME
	// points into the sandbox and holds directories of the same names without the tilde
	for _, o := range []string{"~gen", "~", "~build/internal", "~/x"} {
		add(c16Run{name: "tilde/" + o, text: c16Valid, fileKind: "valid", outKind: "tilde:" + o, pkgPre: "none", useTrace: true})
	}
	// (B) pre-states
	for _, ok := range []string{"ok", "missing", "file", "symlink"} {
		for _, pp := range []string{"none", "emptydir", "dirwithfiles", "file", "dangling", "symlinkdir"} {
			for _, k := range []string{"valid", "syntax"} {
				add(c16Run{name: fmt.Sprintf("pre/%s/%s/%s", ok, pp, k), text: c16Inputs[k], fileKind: k, outKind: ok, pkgPre: pp, useTrace: true})
				if k == "valid" {
					add(c16Run{name: fmt.Sprintf("pre/%s/%s/%s/named", ok, pp, k), text: c16Inputs[k], fileKind: k, pkgName: "other", outKind: ok, pkgPre: pp, useTrace: false})
				}
			}
		}
	}
	// (C) names
	names := []string{"a", "calc2", "Calc", "my_pkg", "_x", "x_", "_", "__", "9lives", "a-b", "a.b", "a b", "func", "type", "package", "int", "string", "nil", "true", "len", "append", "error", "any", "iota", "main", "init", "π", "héllo", "x²", "v½", "n①", "aⅧ", "m³s", "a٣", "ａｂ", "a\u0301", "a😀", "a\u200d", "٣a", "a/b", "../escape", ".", "..", "a\tb", "x9"}
	for i, n := range names {
		add(c16Run{name: fmt.Sprintf("name%d/%q", i, n), text: c16Valid, fileKind: "valid", pkgName: n, outKind: "ok", pkgPre: "none", useTrace: true})
	}
	// (D) fault enumeration
	countCalls := func(text string) (writes, opens int) {
		// one traced run to learn how many writes / opens a fault-free run makes
		sb, _ := os.MkdirTemp("", "verif-c16n-")
		defer os.RemoveAll(sb)
		_ = os.WriteFile(filepath.Join(sb, "in.ebnf"), []byte(text), 0o644)
		_ = os.Mkdir(filepath.Join(sb, "out"), 0o755)
		tf := filepath.Join(sb, "t.log")
		cmd := exec.Command("strace", "-f", "-qq", "-s", "0", "-e", "trace=openat,write,mkdirat", "-o", tf, bin, "-out", filepath.Join(sb, "out"), filepath.Join(sb, "in.ebnf"))
		_ = cmd.Run()
		b, _ := os.ReadFile(tf)
		for _, e := range parseStrace(string(b)) {
			if e.Call == "write" {
				writes++
			}
			if e.Call == "openat" {
				opens++
			}
		}
		return
	}
	for si, k := range []string{"valid", "valid2"} {
		w, o := countCalls(c16Inputs[k])
		c.count("writes_in_a_fault_free_run_"+k, int64(w)/int64(c.of))
		for _, errno := range []string{"ENOSPC", "EIO", "EACCES"} {
			for kth := 1; kth <= w+2; kth++ {
				if errno != "ENOSPC" && kth%3 != si%3 && c.quick() {
					continue
				}
				add(c16Run{name: fmt.Sprintf("fault/%s/write/%s/%d", k, errno, kth), text: c16Inputs[k], fileKind: k, outKind: "ok", pkgPre: "none", inject: fmt.Sprintf("write:error=%s:when=%d", errno, kth), useTrace: true})
			}
			for kth := 1; kth <= o+1; kth++ {
				add(c16Run{name: fmt.Sprintf("fault/%s/openat/%s/%d", k, errno, kth), text: c16Inputs[k], fileKind: k, outKind: "ok", pkgPre: "none", inject: fmt.Sprintf("openat:error=%s:when=%d", errno, kth), useTrace: true})
			}
			add(c16Run{name: fmt.Sprintf("fault/%s/mkdirat/%s", k, errno), text: c16Inputs[k], fileKind: k, outKind: "ok", pkgPre: "none", inject: fmt.Sprintf("mkdirat:error=%s:when=1", errno), useTrace: true})
		}
	}
	// (E) persistent faults: from the k-th write on every write fails (a full disk stays full), and every other one
	for _, k := range []string{"valid", "valid2"} {
		w, _ := countCalls(c16Inputs[k])
		for kth := 1; kth <= w+1; kth++ {
			add(c16Run{name: fmt.Sprintf("fault/%s/write/ENOSPC/%d+", k, kth), text: c16Inputs[k], fileKind: k, outKind: "ok", pkgPre: "none", inject: fmt.Sprintf("write:error=ENOSPC:when=%d+", kth), useTrace: true})
			if !c.quick() || kth%2 == 0 {
				add(c16Run{name: fmt.Sprintf("fault/%s/write/EIO/%d+2", k, kth), text: c16Inputs[k], fileKind: k, outKind: "ok", pkgPre: "none", inject: fmt.Sprintf("write:error=EIO:when=%d+2", kth), useTrace: true})
			}
		}
		// (F) the specification cannot be read (completely)
		for kth := 1; kth <= 12; kth++ {
			add(c16Run{name: fmt.Sprintf("fault/%s/read/EIO/%d", k, kth), text: c16Inputs[k], fileKind: k, outKind: "ok", pkgPre: "none", inject: fmt.Sprintf("read:error=EIO:when=%d", kth), useTrace: true})
		}
	}
	// (G) generated specifications (other sizes, other numbers of writes), fault-free and with every k-th write failing
	rg := c.rng("gen")
	nGen := c.n(6, 60)
	for gi, tries := 0, 0; gi < nGen && tries < 40*nGen; tries++ {
		g := genWellFormedSpec(rg, wfOpts{nNT: 1 + rg.intn(3), nTok: rg.intn(3), nStr: 1 + rg.intn(4), nExtraRules: rg.intn(3), nDirectives: rg.intn(3), depth: 1 + rg.intn(2), ruleHandles: true})
		text := canonicalText(g)
		rd := refRead(text)
		if rd.Tree == nil || !isUsableGoPackageName(rd.Tree.Name) {
			continue
		}
		if ref, _ := referenceGeneration(text, ""); ref == nil {
			continue
		}
		gi++
		gn := rd.Tree.Name
		for fi, fs := range flagSets {
			add(c16Run{name: fmt.Sprintf("gen%d/f%d", gi, fi), text: text, fileKind: "gen", gramName: gn, flags: fs, outKind: "ok", pkgPre: "none", useTrace: true})
		}
		add(c16Run{name: fmt.Sprintf("gen%d/named", gi), text: text, fileKind: "gen", gramName: gn, pkgName: "renamed", outKind: "symlink", pkgPre: "none", useTrace: true})
		for _, pp := range []string{"emptydir", "dirwithfiles", "file", "dangling", "symlinkdir"} {
			add(c16Run{name: fmt.Sprintf("gen%d/pre/%s", gi, pp), text: text, fileKind: "gen", gramName: gn, outKind: "ok", pkgPre: pp, useTrace: true})
		}
		w, _ := countCalls(text)
		for kth := 1; kth <= w+1; kth++ {
			add(c16Run{name: fmt.Sprintf("gen%d/write/ENOSPC/%d", gi, kth), text: text, fileKind: "gen", gramName: gn, outKind: "ok", pkgPre: "none", inject: fmt.Sprintf("write:error=ENOSPC:when=%d", kth), useTrace: true})
			if !c.quick() {
				add(c16Run{name: fmt.Sprintf("gen%d/write/ENOSPC/%d+", gi, kth), text: text, fileKind: "gen", gramName: gn, outKind: "ok", pkgPre: "none", inject: fmt.Sprintf("write:error=ENOSPC:when=%d+", kth), useTrace: true})
			}
		}
	}
	// (H) thorough: every name x every pre-state of <out>/<name>
	if !c.quick() {
		for i, n := range names {
			for _, ok := range []string{"ok", "missing", "symlink"} {
				for _, pp := range []string{"emptydir", "dirwithfiles", "file", "dangling", "symlinkdir"} {
					add(c16Run{name: fmt.Sprintf("name%d/%q/%s/%s", i, n, ok, pp), text: c16Valid, fileKind: "valid", pkgName: n, outKind: ok, pkgPre: pp, useTrace: i%2 == 0})
				}
			}
		}
	}
	sort.SliceStable(runs, func(i, j int) bool { return false })
	for i, r := range runs {
		if c.mineIdx(i) {
			c16Execute(c, bin, r)
		}
	}
	c.exhaustive("every_kth_write_ENOSPC_and_every_open_mkdir_fault_of_the_fault_free_runs", true)
}

func isUnicodeLetter(r rune) bool { return unicode.IsLetter(r) }
func isUnicodeDigit(r rune) bool  { return unicode.Is(unicode.Nd, r) }

func grepLines(s, sub string) string {
	var out []string
	for _, l := range strings.Split(s, "\n") {
		if strings.Contains(l, sub) {
			out = append(out, l)
		}
	}
	return strings.Join(out, "\n")
}

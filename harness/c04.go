package main

// C04 - the built-in EBNF parser's tables: identity with the LALR(1) table of the documented grammar
// (exhaustive, up to state renaming), byte-identical regeneration, and language/disambiguation against the
// reference recursive-descent reader on all token sequences to a length bound.

import (
	"bytes"
	"fmt"
	"io"
	"os"
	"os/exec"
	"path/filepath"
	"strconv"
	"strings"

	"github.com/moorara/algo/grammar"
	"github.com/moorara/algo/lexer"
	"github.com/moorara/algo/parser"
	"github.com/moorara/algo/parser/lr"

	eparser "github.com/gardenbed/emerge/internal/ebnf/parser"
)

func init() {
	register(&property{
		id:    "C04",
		level: "exploration",
		rule: "(1) EVERY entry ACTION(s,a), GOTO(s,A) for s in [-1, S+8], a in 22 terminals + end marker + 3 foreign terminals, A in 14 non-terminals + 2 foreign, is compared (up to state renaming, by simultaneous BFS from state 0) with an independently constructed LALR(1) table of the documented grammar and its five documented precedence levels; unreachable states must have no entries. " +
			"(2) the table generator is rebuilt and run twice; its output must equal the checked-in parsing_table.go byte for byte. (3) index->production is validated on a covering corpus. " +
			"(4) ALL token-kind sequences over the 22 kinds up to a length bound (pruned only below a prefix both sides already rejected at the same index) plus seeded longer sentences and 1-3 token edits of them: accept/reject, index of the offending token and the complete interleaved token/production callback sequence must equal the reference recursive-descent reader. " +
			"non-trivial = sequence accepted, or rejected after >= 3 tokens; distinct by sequence.",
		assumptions: []string{
			"documented grammar = productions 0..34 as printed in docs/5-definitions.md with {decl} and [\";\"] expanded into decls/semi_opt (the same expansion the table comments show)",
			"precedence rule: production takes the level of its leftmost terminal or its own <rule> level; earlier level wins; equal level: left=reduce, right=shift",
		},
		floorQuick: 100000, floorThorough: 1000000,
		run: runC04,
	})
}

// ---------------------------------------------------------------- real parser with an injected token stream

type fakeLexer struct {
	kinds []string
	lex   []string
	pos   int
}

func (l *fakeLexer) NextToken() (lexer.Token, error) {
	if l.pos >= len(l.kinds) {
		return lexer.Token{}, io.EOF
	}
	lx := strconv.Itoa(l.pos)
	if l.lex != nil {
		lx = l.lex[l.pos]
	}
	t := lexer.Token{Terminal: grammar.Terminal(l.kinds[l.pos]), Lexeme: lx, Pos: lexer.Position{Filename: "seq", Offset: l.pos, Line: 1, Column: l.pos + 1}}
	l.pos++
	return t, nil
}

// realParseKinds drives emerge's Parser.Parse over a token-kind sequence and records the callback sequence.
func realParseKinds(kinds []string) (evs []rev, errAt int, errText string) {
	p := &eparser.Parser{L: &fakeLexer{kinds: kinds}}
	shifted := 0
	err := p.Parse(func(t *lexer.Token) error {
		evs = append(evs, rev{t.Pos.Offset, -1})
		shifted++
		return nil
	}, func(i int) error {
		evs = append(evs, rev{-1, i})
		return nil
	})
	if err != nil {
		return evs, shifted, err.Error()
	}
	return evs, -1, ""
}

// hostileLexemes: the token KINDS decide; what a string, identifier or pattern happens to contain must not. Value tokens
// get texts that look like punctuation, keywords or nothing at all.
var hostileLexPool = []string{"(", "[", "{", "{{", ")", "]", "}", "}}", "|", ";", "=", "<", ">", "grammar", "@left", "", "start", "$", "/*", "//", "\""}

func hostileLexemes(kinds []string, salt int) []string {
	out := make([]string, len(kinds))
	for i, k := range kinds {
		switch k {
		case "STRING", "IDENT", "TOKEN", "REGEX", "PREDEF":
			out[i] = hostileLexPool[(i*7+salt*3+len(kinds))%len(hostileLexPool)]
		default:
			out[i] = k
		}
	}
	return out
}

func realParseKindsLex(kinds, lex []string) (evs []rev, errAt int, errText string) {
	p := &eparser.Parser{L: &fakeLexer{kinds: kinds, lex: lex}}
	shifted := 0
	err := p.Parse(func(t *lexer.Token) error {
		evs = append(evs, rev{t.Pos.Offset, -1})
		shifted++
		return nil
	}, func(i int) error {
		evs = append(evs, rev{-1, i})
		return nil
	})
	if err != nil {
		return evs, shifted, err.Error()
	}
	return evs, -1, ""
}

func sameEvents(a, b []rev) bool {
	if len(a) != len(b) {
		return false
	}
	for i := range a {
		if a[i] != b[i] {
			return false
		}
	}
	return true
}

// docGrammar / docPrecedences: the documented grammar and precedence list.
func docGrammar() (*cgrammar, []precLevel) {
	ntSet := map[string]bool{}
	var nts []string
	for _, p := range docProds {
		if !ntSet[p.head] {
			ntSet[p.head] = true
			nts = append(nts, p.head)
		}
	}
	var prods []cprod
	for _, p := range docProds {
		prods = append(prods, cprod{p.head, p.body})
	}
	g := newCGrammar(tokenKinds, nts, prods, "grammar")
	// "grammar" is both the start non-terminal and a terminal keyword in the documented grammar; the reference
	// keeps them apart by renaming the keyword occurrence (production 1, first symbol).
	for i := range g.Prods {
		b := append([]string{}, g.Prods[i].Body...)
		for j := range b {
			if b[j] == "grammar" && !(i == 0) {
				b[j] = "kw:grammar"
			}
		}
		g.Prods[i].Body = b
	}
	for i := range g.Terms {
		if g.Terms[i] == "grammar" {
			g.Terms = append(append([]string{}, g.Terms[:i]...), append([]string{"kw:grammar"}, g.Terms[i+1:]...)...)
		}
	}
	prec := []precLevel{
		{Assoc: "left", ProdIdx: map[int]bool{23: true}},
		{Assoc: "left", Terms: map[string]bool{"(": true, "[": true, "{": true, "{{": true, "IDENT": true, "TOKEN": true, "STRING": true}},
		{Assoc: "right", Terms: map[string]bool{"|": true}},
		{Assoc: "none", Terms: map[string]bool{"=": true}},
		{Assoc: "none", Terms: map[string]bool{"@left": true, "@right": true, "@none": true}},
	}
	return g, prec
}

func termName(a string) string {
	if a == "kw:grammar" {
		return "grammar"
	}
	return a
}

func emergeAction(s int, a string) (kind byte, target int, ok bool) {
	t := grammar.Terminal(a)
	if a == "" {
		t = grammar.Endmarker
	}
	typ, param, err := eparser.ACTION(s, t)
	if err != nil {
		return 0, 0, false
	}
	switch typ {
	case lr.SHIFT:
		return 's', param, true
	case lr.REDUCE:
		return 'r', param, true
	case lr.ACCEPT:
		return 'a', 0, true
	}
	return 0, 0, false
}

func runC04(c *ctx) {
	if c.shard == 0 {
		c04TableIdentity(c)
		c04Regenerate(c)
		c04IndexToProduction(c)
	}
	c04Sequences(c)
}

func c04TableIdentity(c *ctx) {
	g, prec := docGrammar()
	ref := buildLALR(g, prec)
	if len(ref.unresolved) > 0 {
		c.inconclusive("reference table has unresolved conflicts (harness self-check)")
		c.note("reference LALR table of the documented grammar has %d unresolved conflicts, e.g. %+v", len(ref.unresolved), ref.unresolved[0])
		return
	}
	c.count("reference_lalr_states", int64(ref.nstates))
	c.count("reference_conflicts_decided_by_documented_precedences", int64(ref.decided))
	// find the extent of emerge's table
	terms := append([]string{}, g.Terms...)
	smax := -1
	for s := 0; s < 4096; s++ {
		any := false
		for _, a := range append(terms, "") {
			if _, _, ok := emergeAction(s, termName(a)); ok {
				any = true
			}
		}
		if any {
			smax = s
		} else if s > smax+64 {
			break
		}
	}
	c.count("emerge_table_last_state", int64(smax))
	// BFS isomorphism from (0,0)
	e2r := map[int]int{0: 0}
	r2e := map[int]int{0: 0}
	queue := []int{0}
	bad := func(what string, in any, obs, exp string) {
		c.violate(violation{Case: "table-entry", Input: in, Observed: obs, Expected: exp, Note: what})
	}
	mapState := func(es, rs int, via string) bool {
		if old, ok := e2r[es]; ok {
			if old != rs {
				bad("state correspondence", map[string]any{"via": via}, fmt.Sprintf("emerge state %d corresponds to two reference states (%d, %d)", es, old, rs), "one LALR state")
				return false
			}
			return true
		}
		if old, ok := r2e[rs]; ok && old != es {
			bad("state correspondence", map[string]any{"via": via}, fmt.Sprintf("reference state %d corresponds to emerge states %d and %d", rs, old, es), "one table state per LALR state")
			return false
		}
		e2r[es], r2e[rs] = rs, es
		queue = append(queue, es)
		return true
	}
	entries := int64(0)
	for len(queue) > 0 {
		es := queue[0]
		queue = queue[1:]
		rs := e2r[es]
		for _, a := range append(append([]string{}, terms...), endMark) {
			entries++
			ea := termName(a)
			if a == endMark {
				ea = ""
			}
			ek, et, eok := emergeAction(es, ea)
			ra, rok := ref.resolved[rs][a]
			in := map[string]any{"emerge_state": es, "terminal": ea}
			switch {
			case eok != rok:
				bad("ACTION", in, fmt.Sprintf("ACTION[%d,%q] present=%v", es, ea, eok), fmt.Sprintf("present=%v in the LALR(1) table of the documented grammar (reference action %c%d)", rok, orSpace(ra.Kind), ra.Target))
			case !eok:
			case ek != ra.Kind:
				bad("ACTION", in, fmt.Sprintf("ACTION[%d,%q] = %c %d", es, ea, ek, et), fmt.Sprintf("%c (reference target %d)", ra.Kind, ra.Target))
			case ek == 'r' && et != ra.Target:
				bad("ACTION", in, fmt.Sprintf("ACTION[%d,%q] = reduce %d (%s)", es, ea, et, prodStr(et)), fmt.Sprintf("reduce %d (%s)", ra.Target, prodStr(ra.Target)))
			case ek == 's':
				mapState(et, ra.Target, fmt.Sprintf("shift %q from %d", ea, es))
			}
		}
		for _, A := range g.NTs {
			entries++
			eg := eparser.GOTO(es, grammar.NonTerminal(A))
			rg, rok := ref.gotoT[rs][A]
			in := map[string]any{"emerge_state": es, "non_terminal": A}
			switch {
			case (eg >= 0) != rok:
				bad("GOTO", in, fmt.Sprintf("GOTO[%d,%s] = %d", es, A, eg), fmt.Sprintf("present=%v", rok))
			case eg >= 0:
				mapState(eg, rg, fmt.Sprintf("goto %s from %d", A, es))
			}
		}
		// foreign symbols never have entries
		for _, a := range []string{"FOO", "ident", "$"} {
			entries++
			if _, _, ok := emergeAction(es, a); ok {
				bad("ACTION", map[string]any{"emerge_state": es, "terminal": a}, "entry for a terminal the grammar does not have", "no entry")
			}
		}
		for _, A := range []string{"foo", "rhs2"} {
			entries++
			if eparser.GOTO(es, grammar.NonTerminal(A)) >= 0 {
				bad("GOTO", map[string]any{"emerge_state": es, "non_terminal": A}, "entry for a non-terminal the grammar does not have", "no entry")
			}
		}
	}
	if len(e2r) != ref.nstates {
		bad("state count", nil, fmt.Sprintf("%d states reachable in emerge's table", len(e2r)), fmt.Sprintf("%d LALR(1) states", ref.nstates))
	}
	// no extra entries: states not reached from 0 (and -1, beyond the end) have nothing
	for s := -1; s <= smax+8; s++ {
		if _, reach := e2r[s]; reach {
			continue
		}
		for _, a := range append(append([]string{}, terms...), "") {
			entries++
			if _, _, ok := emergeAction(s, termName(a)); ok {
				bad("extra entry", map[string]any{"state": s, "terminal": a}, fmt.Sprintf("ACTION[%d,%q] exists but state %d is not a state of the LALR automaton", s, a, s), "no entry")
			}
		}
		for _, A := range g.NTs {
			entries++
			if eparser.GOTO(s, grammar.NonTerminal(A)) >= 0 {
				bad("extra entry", map[string]any{"state": s, "non_terminal": A}, fmt.Sprintf("GOTO[%d,%s] exists but state %d is not a state of the LALR automaton", s, A, s), "no entry")
			}
		}
	}
	c.evalN(entries)
	c.count("table_entries_compared", entries)
	c.count("table_states_matched", int64(len(e2r)))
	c.exhaustive("all_ACTION_GOTO_entries", true)
	c.nontrivial("table-identity")
}

func orSpace(b byte) byte {
	if b == 0 {
		return '-'
	}
	return b
}

func prodStr(i int) string {
	if i < 0 || i >= len(docProds) {
		return "?"
	}
	return cprod{docProds[i].head, docProds[i].body}.String()
}

func c04Regenerate(c *ctx) {
	gen := filepath.Join(verifDir, "bin", "ebnfgen")
	if _, err := os.Stat(gen); err != nil {
		c.inconclusive("table generator binary missing")
		return
	}
	want, err := os.ReadFile(filepath.Join(repoDir(), "internal/ebnf/parser/parsing_table.go"))
	if err != nil {
		c.inconclusive("cannot read parsing_table.go")
		return
	}
	var outs [][]byte
	for i := 0; i < 2; i++ {
		dir, err := os.MkdirTemp("", "verif-c04-")
		if err != nil {
			c.inconclusive("mktemp")
			return
		}
		cmd := exec.Command(gen)
		cmd.Dir = dir
		cmd.Env = os.Environ()
		var eb bytes.Buffer
		cmd.Stderr, cmd.Stdout = &eb, &eb
		runErr := cmd.Run()
		var got []byte
		_ = filepath.Walk(dir, func(p string, info os.FileInfo, err error) error {
			if err == nil && !info.IsDir() && strings.HasSuffix(p, ".go") {
				got, _ = os.ReadFile(p)
			}
			return nil
		})
		_ = os.RemoveAll(dir)
		c.eval()
		if runErr != nil || got == nil {
			c.violate(violation{Case: "regenerate", Input: "internal/ebnf/parser/generate", Observed: fmt.Sprintf("generator failed: %v %s", runErr, firstLines(eb.String(), 5)), Expected: "writes parsing_table.go"})
			return
		}
		outs = append(outs, got)
	}
	c.nontrivial("regenerate")
	if !bytes.Equal(outs[0], outs[1]) {
		c.violate(violation{Case: "regenerate", Input: "two runs of the generator", Observed: "outputs differ: " + firstDiff(outs[0], outs[1]), Expected: "deterministic output"})
	}
	if !bytes.Equal(outs[0], want) {
		c.violate(violation{Case: "regenerate", Input: "generator output vs checked-in parsing_table.go", Observed: "differs: " + firstDiff(want, outs[0]), Expected: "byte-identical"})
	}
	c.count("regenerated_bytes_compared", int64(len(want)))
}

func firstDiff(a, b []byte) string {
	la, lb := strings.Split(string(a), "\n"), strings.Split(string(b), "\n")
	for i := 0; i < len(la) || i < len(lb); i++ {
		x, y := "", ""
		if i < len(la) {
			x = la[i]
		}
		if i < len(lb) {
			y = lb[i]
		}
		if x != y {
			return fmt.Sprintf("line %d: %q vs %q", i+1, x, y)
		}
	}
	return "same"
}

// c04IndexToProduction pairs Parse's production indices with ParseAndBuildAST's nodes.
func c04IndexToProduction(c *ctx) {
	texts := []string{
		"grammar g; TK = \"x\"; UK = /a+/ VK = $ID @left TK \"+\" <e = e e> <f = > @right \"x\"; @none UK; e = e | f | ; f = ( e ) [ e ] { e } {{ e }} TK \"s\" | ; start = ;",
		"grammar g\n@left <e = e e>\nstart = a b | c | ;\n",
	}
	seen := map[int]bool{}
	for _, text := range texts {
		c.eval()
		var idx []int
		p1, err := eparser.New("f", strings.NewReader(text))
		if err != nil {
			c.inconclusive("parser.New failed")
			return
		}
		if err := p1.Parse(nil, func(i int) error { idx = append(idx, i); return nil }); err != nil {
			c.inconclusive("covering corpus rejected: " + err.Error())
			c.note("index->production corpus rejected: %v", err)
			return
		}
		p2, _ := eparser.New("f", strings.NewReader(text))
		root, err := p2.ParseAndBuildAST()
		if err != nil {
			c.inconclusive("covering corpus rejected by ParseAndBuildAST")
			return
		}
		var post []*parser.InternalNode
		var walk func(n parser.Node)
		walk = func(n parser.Node) {
			if in, ok := n.(*parser.InternalNode); ok {
				for _, k := range in.Children {
					walk(k)
				}
				post = append(post, in)
			}
		}
		walk(root)
		if len(post) != len(idx) {
			c.violate(violation{Case: "index-production", Input: text, Observed: fmt.Sprintf("%d reductions reported, %d interior nodes", len(idx), len(post)), Expected: "equal"})
			return
		}
		for i, in := range post {
			d := docProds[idx[i]]
			var body []string
			for _, k := range in.Children {
				switch v := k.(type) {
				case *parser.InternalNode:
					body = append(body, string(v.NonTerminal))
				case *parser.LeafNode:
					body = append(body, string(v.Terminal))
				}
			}
			seen[idx[i]] = true
			if string(in.NonTerminal) != d.head || strings.Join(body, " ") != strings.Join(d.body, " ") {
				c.violate(violation{Case: "index-production", Input: text, Observed: fmt.Sprintf("production index %d builds %s -> %v", idx[i], in.NonTerminal, body), Expected: prodStr(idx[i])})
				return
			}
		}
	}
	c.count("production_indices_validated", int64(len(seen)))
	if len(seen) != len(docProds) {
		c.note("covering corpus reached %d of %d productions", len(seen), len(docProds))
	}
}

func c04CompareSeq(c *ctx, name string, seq []string) (refErr, realErr int) {
	c.eval()
	_, e1, r1 := refParseKinds(seq)
	var e2 []rev
	var r2 int
	var txt string
	pv, _ := safely(func() { e2, r2, txt = realParseKinds(seq) })
	if pv != nil {
		c.inconclusive("panic (C14's business)")
		return r1, -2
	}
	if r1 == -1 {
		c.count("accepted_sequences", 1)
		if c.res.Evaluations%997 == 5 {
			c.sample(map[string]any{"token_kinds": strings.Join(seq, " "), "verdict": "accepted by both", "callbacks": fmtEvents(e2)})
		}
	} else if c.res.Evaluations%9973 == 7 {
		c.sample(map[string]any{"token_kinds": strings.Join(seq, " "), "verdict": fmt.Sprintf("both reject at token #%d", r1)})
	}
	if r1 == -1 || r1 >= 3 {
		c.nontrivial(strings.Join(seq, " "))
	}
	if r1 != r2 {
		obs := fmt.Sprintf("accepted (%d callbacks)", len(e2))
		if r2 >= 0 {
			obs = fmt.Sprintf("rejected at token #%d: %s", r2, txt)
		}
		exp := "accepted by the documented grammar"
		if r1 >= 0 {
			exp = fmt.Sprintf("rejected at token #%d (%s)", r1, tokAt(seq, r1))
		}
		c.violate(violation{Case: name, Input: strings.Join(seq, " "), Observed: obs, Expected: exp})
	} else if r1 == -1 && !sameEvents(e1, e2) {
		c.violate(violation{Case: name, Input: strings.Join(seq, " "), Observed: fmt.Sprintf("callback sequence %s", fmtEvents(e2)), Expected: fmtEvents(e1), Note: "derivation differs: precedence/associativity of the documented list not respected"})
	} else if r1 >= 0 && !sameEvents(e1, e2) {
		// events before the error must also agree (the reference stops at the same token; reductions performed before
		// the error is detected may legitimately differ: an LALR parser may reduce before it notices) -> tokens only
		if !sameTokens(e1, e2) {
			c.violate(violation{Case: name, Input: strings.Join(seq, " "), Observed: "tokens shifted before the error: " + fmtEvents(e2), Expected: fmtEvents(e1)})
		}
	}
	// the same kinds with hostile lexemes: same verdict, same callbacks
	if r1 == r2 && (r1 == -1 || c.res.Evaluations%3 == 0) {
		hasValue := false
		for _, k := range seq {
			if k == "STRING" || k == "IDENT" || k == "TOKEN" || k == "REGEX" || k == "PREDEF" {
				hasValue = true
			}
		}
		if hasValue {
			for salt := 0; salt < 2; salt++ {
				lex := hostileLexemes(seq, salt+int(c.res.Evaluations%5))
				var e3 []rev
				var r3 int
				var txt3 string
				if pv, _ := safely(func() { e3, r3, txt3 = realParseKindsLex(seq, lex) }); pv != nil {
					c.inconclusive("panic (C14's business)")
					break
				}
				c.count("sequences_re_parsed_with_hostile_lexemes", 1)
				if r3 != r2 || !sameEvents(e2, e3) {
					c.violate(violation{Case: name + "/lexemes", Input: map[string]any{"token_kinds": strings.Join(seq, " "), "lexemes": lex},
						Observed: fmt.Sprintf("with these lexemes: error position %d (%s), callbacks %s", r3, txt3, fmtEvents(e3)),
						Expected: fmt.Sprintf("as with neutral lexemes: error position %d, callbacks %s (acceptance depends on the token kinds only)", r2, fmtEvents(e2))})
					break
				}
			}
		}
	}
	return r1, r2
}

func sameTokens(a, b []rev) bool {
	var x, y []int
	for _, e := range a {
		if e.Tok >= 0 {
			x = append(x, e.Tok)
		}
	}
	for _, e := range b {
		if e.Tok >= 0 {
			y = append(y, e.Tok)
		}
	}
	if len(x) != len(y) {
		return false
	}
	for i := range x {
		if x[i] != y[i] {
			return false
		}
	}
	return true
}

func tokAt(seq []string, i int) string {
	if i < len(seq) {
		return seq[i]
	}
	return "end of input"
}

func fmtEvents(evs []rev) string {
	var b strings.Builder
	for i, e := range evs {
		if i > 0 {
			b.WriteByte(' ')
		}
		if e.Tok >= 0 {
			fmt.Fprintf(&b, "t%d", e.Tok)
		} else {
			fmt.Fprintf(&b, "p%d", e.Prod)
		}
		if i > 120 {
			b.WriteString(" …")
			break
		}
	}
	return b.String()
}

func c04Sequences(c *ctx) {
	maxLen := c.n(9, 12)
	// exhaustive DFS; sharded by the first two tokens
	seq := make([]string, 0, maxLen)
	enumerated, enumCap, capped := 0, c.n(400000, 12000000), false
	var rec func()
	rec = func() {
		r1, r2 := c04CompareSeq(c, "enum", seq)
		if len(seq) == maxLen {
			return
		}
		if r1 != -1 && r1 < len(seq) && r2 == r1 && len(seq) >= 3 {
			return // both already rejected this prefix at the same token: extensions behave identically
		}
		if r1 != r2 {
			return // disagreement already reported for this prefix; its extensions would only repeat it
		}
		if enumerated++; enumerated > enumCap {
			capped = true
			return
		}
		for _, k := range tokenKinds {
			seq = append(seq, k)
			rec()
			seq = seq[:len(seq)-1]
		}
	}
	if c.shard == 0 {
		c04CompareSeq(c, "enum", nil)
		for _, k := range tokenKinds {
			c04CompareSeq(c, "enum", []string{k})
		}
	}
	n := 0
	for _, a := range tokenKinds {
		for _, b := range tokenKinds {
			if c.mineIdx(n) {
				if a == tokenKinds[0] || true {
					seq = append(seq[:0], a, b)
					rec()
				}
			}
			n++
		}
	}
	c.exhaustive(fmt.Sprintf("token_kind_sequences_len_le_%d", maxLen), !capped)
	if capped {
		c.note("enumeration cap reached in shard %d: sequence space not covered completely", c.shard)
	}

	// long and deep sentences: alternation chains, nesting, concatenations far beyond what the enumeration reaches
	idx := 0
	longCase := func(name string, seq []string) {
		if c.mineIdx(idx) {
			c04CompareSeq(c, name, seq)
			c.count("long_or_deep_sequences", 1)
		}
		idx++
	}
	for _, n := range []int{100, 400, 509, 510, 700, 1500, 4000} {
		alts := []string{"grammar", "IDENT", "IDENT", "="}
		for i := 0; i < n; i++ {
			if i > 0 {
				alts = append(alts, "|")
			}
			alts = append(alts, "STRING")
		}
		longCase("long-alt", append(alts, ";"))
		cc := []string{"grammar", "IDENT", "IDENT", "="}
		for i := 0; i < n; i++ {
			cc = append(cc, pick(c.rng("cc"), []string{"IDENT", "TOKEN", "STRING"}))
		}
		longCase("long-concat", append(cc, ";"))
		for _, br := range [][2]string{{"(", ")"}, {"[", "]"}, {"{", "}"}, {"{{", "}}"}} {
			d := []string{"grammar", "IDENT", "IDENT", "="}
			for i := 0; i < n; i++ {
				d = append(d, br[0])
			}
			d = append(d, "IDENT")
			for i := 0; i < n; i++ {
				d = append(d, br[1])
			}
			longCase("deep-nest", append(d, ";"))
		}
		decls := []string{"grammar", "IDENT"}
		for i := 0; i < n; i++ {
			decls = append(decls, "TOKEN", "=", "STRING", "@left", "TOKEN", "<", "IDENT", "=", ">", "IDENT", "=", "IDENT", ";")
		}
		longCase("many-decls", decls)
	}

	// seeded long sentences and edits
	r := c.rng("sentences")
	nSent := c.n(3000, 60000)
	for i := 0; i < nSent; i++ {
		s := genSentenceKinds(r, 4+r.intn(10))
		mine := c.mine()
		if mine {
			c04CompareSeq(c, "sentence", s)
		}
		for e := 0; e < 3; e++ {
			m := mutateKinds(r, s, 1+r.intn(3))
			if mine {
				c04CompareSeq(c, "edit", m)
			}
		}
	}
}

// genSentenceKinds generates a random sentence (token kinds) of the documented grammar.
func genSentenceKinds(r *rng, ndecls int) []string {
	out := []string{"grammar", "IDENT"}
	if r.chance(1, 2) {
		out = append(out, ";")
	}
	var rhs func(depth int) []string
	rhs = func(depth int) []string {
		var o []string
		n := 1 + r.intn(3)
		for i := 0; i < n; i++ {
			switch k := r.intn(10); {
			case k < 2 && depth > 0:
				o = append(o, "(")
				o = append(o, rhs(depth-1)...)
				o = append(o, ")")
			case k < 3 && depth > 0:
				o = append(o, "[")
				o = append(o, rhs(depth-1)...)
				o = append(o, "]")
			case k < 4 && depth > 0:
				o = append(o, "{")
				o = append(o, rhs(depth-1)...)
				o = append(o, "}")
			case k < 5 && depth > 0:
				o = append(o, "{{")
				o = append(o, rhs(depth-1)...)
				o = append(o, "}}")
			case k < 7:
				o = append(o, "IDENT")
			case k < 9:
				o = append(o, "STRING")
			default:
				o = append(o, "TOKEN")
			}
		}
		for r.chance(1, 3) {
			o = append(o, "|")
			if r.chance(3, 4) {
				o = append(o, rhs(depth)...)
			}
		}
		return o
	}
	rule := func() []string {
		o := []string{"IDENT", "="}
		if r.chance(5, 6) {
			o = append(o, rhs(3)...)
		}
		return o
	}
	for i := 0; i < ndecls; i++ {
		switch r.intn(4) {
		case 0:
			out = append(out, "TOKEN", "=", pick(r, []string{"STRING", "REGEX", "PREDEF"}))
			if r.chance(1, 2) {
				out = append(out, ";")
			}
		case 1:
			out = append(out, pick(r, []string{"@left", "@right", "@none"}))
			for h := 1 + r.intn(4); h > 0; h-- {
				switch r.intn(3) {
				case 0:
					out = append(out, "TOKEN")
				case 1:
					out = append(out, "STRING")
				default:
					out = append(out, "<")
					out = append(out, rule()...)
					out = append(out, ">")
				}
			}
			if r.chance(1, 2) {
				out = append(out, ";")
			}
		default:
			out = append(out, rule()...)
			out = append(out, ";")
		}
	}
	return out
}

func mutateKinds(r *rng, s []string, n int) []string {
	m := append([]string{}, s...)
	for i := 0; i < n; i++ {
		switch r.intn(3) {
		case 0:
			if len(m) > 0 {
				p := r.intn(len(m))
				m = append(m[:p], m[p+1:]...)
			}
		case 1:
			p := r.intn(len(m) + 1)
			m = append(m[:p], append([]string{pick(r, tokenKinds)}, m[p:]...)...)
		default:
			if len(m) > 0 {
				m[r.intn(len(m))] = pick(r, tokenKinds)
			}
		}
	}
	return m
}

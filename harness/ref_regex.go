package main

// R2 - regular-language kit (reference model, written from docs/5-definitions.md; does not use moorara/algo).
//
//   * runeSet: sets of code points as sorted disjoint ranges
//   * reNode:  pattern trees with a canonical printer
//   * parsePattern: recursive-descent reader of the documented pattern grammar (unambiguous forms)
//   * Thompson construction + lazy subset construction
//   * langCompare: complete language-equality decision against any deterministic automaton, with a shortest witness

import (
	"fmt"
	"sort"
	"strconv"
	"strings"
)

// ------------------------------------------------------------------ rune sets

type rrange struct{ lo, hi rune }
type runeSet []rrange

func rsNorm(in []rrange) runeSet {
	var xs []rrange
	for _, r := range in {
		if r.lo <= r.hi {
			xs = append(xs, r)
		}
	}
	sort.Slice(xs, func(i, j int) bool { return xs[i].lo < xs[j].lo })
	var out runeSet
	for _, r := range xs {
		if n := len(out); n > 0 && r.lo <= out[n-1].hi+1 {
			if r.hi > out[n-1].hi {
				out[n-1].hi = r.hi
			}
		} else {
			out = append(out, r)
		}
	}
	return out
}

func rsOf(rs ...rune) runeSet {
	var xs []rrange
	for _, r := range rs {
		xs = append(xs, rrange{r, r})
	}
	return rsNorm(xs)
}
func rsRange(lo, hi rune) runeSet { return rsNorm([]rrange{{lo, hi}}) }
func rsUnion(a ...runeSet) runeSet {
	var xs []rrange
	for _, s := range a {
		xs = append(xs, s...)
	}
	return rsNorm(xs)
}

// universe of "." and of negation: 7-bit ASCII without NUL (NUL is the reader's sentinel; the property excludes it)
var rsASCII = rsRange(1, 0x7F)

func rsNegASCII(a runeSet) runeSet {
	var out []rrange
	cur := rune(1)
	for _, r := range a {
		if r.hi < 1 {
			continue
		}
		if r.lo > 0x7F {
			break
		}
		if r.lo > cur {
			out = append(out, rrange{cur, r.lo - 1})
		}
		if r.hi+1 > cur {
			cur = r.hi + 1
		}
	}
	if cur <= 0x7F {
		out = append(out, rrange{cur, 0x7F})
	}
	return rsNorm(out)
}

func (s runeSet) has(r rune) bool {
	i := sort.Search(len(s), func(i int) bool { return s[i].hi >= r })
	return i < len(s) && s[i].lo <= r
}
func (s runeSet) size() int {
	n := 0
	for _, r := range s {
		n += int(r.hi-r.lo) + 1
	}
	return n
}
func (s runeSet) runes() []rune {
	var out []rune
	for _, r := range s {
		for c := r.lo; c <= r.hi; c++ {
			out = append(out, c)
		}
	}
	return out
}
func (s runeSet) withoutNUL() runeSet {
	var out []rrange
	for _, r := range s {
		if r.lo == 0 {
			r.lo = 1
		}
		out = append(out, r)
	}
	return rsNorm(out)
}

// documented classes (standard definitions)
var (
	rsDigit  = rsRange('0', '9')
	rsSpaceS = rsOf(' ', '\t', '\n', '\r', '\f') // \s  (RE2 / Go definition)
	rsWord   = rsUnion(rsRange('0', '9'), rsRange('A', 'Z'), rsOf('_'), rsRange('a', 'z'))
	posixSet = map[string]runeSet{
		"[:blank:]":  rsOf(' ', '\t'),
		"[:space:]":  rsOf(' ', '\t', '\n', '\r', '\f', '\v'),
		"[:digit:]":  rsRange('0', '9'),
		"[:xdigit:]": rsUnion(rsRange('0', '9'), rsRange('A', 'F'), rsRange('a', 'f')),
		"[:upper:]":  rsRange('A', 'Z'),
		"[:lower:]":  rsRange('a', 'z'),
		"[:alpha:]":  rsUnion(rsRange('A', 'Z'), rsRange('a', 'z')),
		"[:alnum:]":  rsUnion(rsRange('0', '9'), rsRange('A', 'Z'), rsRange('a', 'z')),
		"[:word:]":   rsWord,
		"[:ascii:]":  rsASCII,
	}
	posixNames = []string{"[:blank:]", "[:space:]", "[:digit:]", "[:xdigit:]", "[:upper:]", "[:lower:]", "[:alpha:]", "[:alnum:]", "[:word:]", "[:ascii:]"}
	classSet   = map[string]runeSet{
		`\s`: rsSpaceS, `\S`: rsNegASCII(rsSpaceS),
		`\d`: rsDigit, `\D`: rsNegASCII(rsDigit),
		`\w`: rsWord, `\W`: rsNegASCII(rsWord),
	}
	classNames  = []string{`\s`, `\S`, `\d`, `\D`, `\w`, `\W`}
	reMetaChars = `\|.?*+()[]{}$`
)

// ------------------------------------------------------------------ pattern trees

const (
	rLeaf  = iota // a set of code points, printed as text
	rCat          // concatenation of kids (>=1)
	rAlt          // alternation of exactly two kids: kid0 | kid1 (kid1 may itself be rAlt: grammar is right-recursive)
	rGroup        // ( kid0 ) with optional quantifier
	rQuant        // leaf kid0 with a quantifier (match_item quantifier)
)

type quant struct {
	kind string // "", "?", "*", "+", "{"
	lo   int
	hi   int // -1 = unbounded; for "{n}" hi == lo
	form int // for "{": 0 = {n}, 1 = {n,}, 2 = {n,m}
	lazy bool
}

func (q quant) String() string {
	s := ""
	switch q.kind {
	case "":
		return ""
	case "?", "*", "+":
		s = q.kind
	case "{":
		switch q.form {
		case 0:
			s = fmt.Sprintf("{%d}", q.lo)
		case 1:
			s = fmt.Sprintf("{%d,}", q.lo)
		default:
			s = fmt.Sprintf("{%d,%d}", q.lo, q.hi)
		}
	}
	if q.lazy {
		s += "?"
	}
	return s
}

// bounds returns (min, max) repetitions, max -1 = unbounded.
func (q quant) bounds() (int, int) {
	switch q.kind {
	case "?":
		return 0, 1
	case "*":
		return 0, -1
	case "+":
		return 1, -1
	case "{":
		switch q.form {
		case 0:
			return q.lo, q.lo
		case 1:
			return q.lo, -1
		default:
			return q.lo, q.hi
		}
	}
	return 1, 1
}

type reNode struct {
	kind int
	set  runeSet // rLeaf
	text string  // rLeaf: how it is written
	kids []*reNode
	q    quant // rGroup / rQuant
	// flags used by the generators / maskers
	wide bool // leaf whose set has > 16 members
}

func leaf(text string, set runeSet) *reNode {
	return &reNode{kind: rLeaf, text: text, set: set, wide: set.size() > 16}
}
func cat(kids ...*reNode) *reNode { return &reNode{kind: rCat, kids: kids} }
func alt(a, b *reNode) *reNode    { return &reNode{kind: rAlt, kids: []*reNode{a, b}} }
func group(k *reNode, q quant) *reNode {
	return &reNode{kind: rGroup, kids: []*reNode{k}, q: q}
}
func quantified(k *reNode, q quant) *reNode {
	if q.kind == "" {
		return k
	}
	return &reNode{kind: rQuant, kids: []*reNode{k}, q: q}
}

// print gives the canonical text. The tree shapes produced by the generators respect the documented grammar:
// expr = subexpr ["|" expr]; subexpr = {{item}}; item = group | match; so rAlt may only appear at the top of an
// expr (directly under a group or at the root) and rCat kids are never rCat/rAlt.
func (n *reNode) print() string {
	var b strings.Builder
	n.printTo(&b)
	return b.String()
}
func (n *reNode) printTo(b *strings.Builder) {
	switch n.kind {
	case rLeaf:
		b.WriteString(n.text)
	case rCat:
		for _, k := range n.kids {
			if k.kind == rAlt || k.kind == rCat {
				b.WriteString("(")
				k.printTo(b)
				b.WriteString(")")
			} else {
				k.printTo(b)
			}
		}
	case rAlt:
		l := n.kids[0]
		if l.kind == rAlt {
			b.WriteString("(")
			l.printTo(b)
			b.WriteString(")")
		} else {
			l.printTo(b)
		}
		b.WriteString("|")
		n.kids[1].printTo(b)
	case rGroup:
		b.WriteString("(")
		n.kids[0].printTo(b)
		b.WriteString(")")
		b.WriteString(n.q.String())
	case rQuant:
		n.kids[0].printTo(b)
		b.WriteString(n.q.String())
	}
}

func (n *reNode) walk(f func(*reNode)) {
	f(n)
	for _, k := range n.kids {
		k.walk(f)
	}
}

// nullable per the documented meaning.
func (n *reNode) nullable() bool {
	switch n.kind {
	case rLeaf:
		return false
	case rCat:
		for _, k := range n.kids {
			if !k.nullable() {
				return false
			}
		}
		return true
	case rAlt:
		return n.kids[0].nullable() || n.kids[1].nullable()
	default:
		lo, _ := n.q.bounds()
		return lo == 0 || n.kids[0].nullable()
	}
}

// ------------------------------------------------------------------ Thompson NFA

type rnfa struct {
	eps   [][]int
	edges [][]rnfaEdge
	start int
	final int
}
type rnfaEdge struct {
	set runeSet
	to  int
}

func (a *rnfa) newState() int {
	a.eps = append(a.eps, nil)
	a.edges = append(a.edges, nil)
	return len(a.eps) - 1
}

// build returns (in, out) states of the fragment for n.
func (a *rnfa) build(n *reNode) (int, int) {
	switch n.kind {
	case rLeaf:
		s, t := a.newState(), a.newState()
		a.edges[s] = append(a.edges[s], rnfaEdge{n.set.withoutNUL(), t})
		return s, t
	case rCat:
		s, t := a.build(n.kids[0])
		for _, k := range n.kids[1:] {
			s2, t2 := a.build(k)
			a.eps[t] = append(a.eps[t], s2)
			t = t2
		}
		return s, t
	case rAlt:
		s, t := a.newState(), a.newState()
		for _, k := range n.kids {
			s1, t1 := a.build(k)
			a.eps[s] = append(a.eps[s], s1)
			a.eps[t1] = append(a.eps[t1], t)
		}
		return s, t
	default: // rGroup, rQuant
		lo, hi := n.q.bounds()
		s := a.newState()
		t := s
		for i := 0; i < lo; i++ {
			s1, t1 := a.build(n.kids[0])
			a.eps[t] = append(a.eps[t], s1)
			t = t1
		}
		if hi < 0 {
			// star
			s1, t1 := a.build(n.kids[0])
			loop := a.newState()
			a.eps[t] = append(a.eps[t], loop)
			a.eps[loop] = append(a.eps[loop], s1)
			a.eps[t1] = append(a.eps[t1], loop)
			t = loop
		} else {
			end := a.newState()
			for i := lo; i < hi; i++ {
				a.eps[t] = append(a.eps[t], end)
				s1, t1 := a.build(n.kids[0])
				a.eps[t] = append(a.eps[t], s1)
				t = t1
			}
			a.eps[t] = append(a.eps[t], end)
			t = end
		}
		return s, t
	}
}

func thompson(n *reNode) *rnfa {
	a := &rnfa{}
	s, t := a.build(n)
	a.start, a.final = s, t
	return a
}

// ------------------------------------------------------------------ lazy subset construction

// detAuto is any deterministic automaton over code points. State -1 is "dead".
type detAuto interface {
	startState() int
	step(s int, r rune) int
	accepting(s int) bool
	// symbols mentioned by the automaton (so that the product walk covers them)
	alphabet() []rune
}

type refDFA struct {
	nfa    *rnfa
	ids    map[string]int
	sets   [][]int
	acc    []bool
	trans  []map[rune]int
	alpha  []rune
	nstate int
}

func newRefDFA(n *reNode) *refDFA {
	d := &refDFA{nfa: thompson(n), ids: map[string]int{}}
	seen := map[rune]bool{}
	n.walk(func(k *reNode) {
		if k.kind == rLeaf {
			for _, r := range k.set {
				// all members (bounded by generators); plus the neighbours of each range end
				for c := r.lo; c <= r.hi; c++ {
					if c != 0 && !seen[c] {
						seen[c] = true
						d.alpha = append(d.alpha, c)
					}
				}
				for _, c := range []rune{r.lo - 1, r.hi + 1} {
					if c > 0 && c <= 0x10FFFF && !seen[c] {
						seen[c] = true
						d.alpha = append(d.alpha, c)
					}
				}
			}
		}
	})
	d.intern(d.closure([]int{d.nfa.start}))
	return d
}

func (d *refDFA) closure(ss []int) []int {
	mark := map[int]bool{}
	var stack []int
	for _, s := range ss {
		if !mark[s] {
			mark[s] = true
			stack = append(stack, s)
		}
	}
	for len(stack) > 0 {
		s := stack[len(stack)-1]
		stack = stack[:len(stack)-1]
		for _, t := range d.nfa.eps[s] {
			if !mark[t] {
				mark[t] = true
				stack = append(stack, t)
			}
		}
	}
	out := make([]int, 0, len(mark))
	for s := range mark {
		out = append(out, s)
	}
	sort.Ints(out)
	return out
}

func (d *refDFA) intern(ss []int) int {
	if len(ss) == 0 {
		return -1
	}
	var b strings.Builder
	for _, s := range ss {
		b.WriteString(strconv.Itoa(s))
		b.WriteByte(',')
	}
	k := b.String()
	if id, ok := d.ids[k]; ok {
		return id
	}
	id := len(d.sets)
	d.ids[k] = id
	d.sets = append(d.sets, ss)
	acc := false
	for _, s := range ss {
		if s == d.nfa.final {
			acc = true
		}
	}
	d.acc = append(d.acc, acc)
	d.trans = append(d.trans, map[rune]int{})
	return id
}

func (d *refDFA) startState() int { return 0 }
func (d *refDFA) accepting(s int) bool {
	return s >= 0 && d.acc[s]
}
func (d *refDFA) alphabet() []rune { return d.alpha }
func (d *refDFA) step(s int, r rune) int {
	if s < 0 {
		return -1
	}
	if t, ok := d.trans[s][r]; ok {
		return t
	}
	var next []int
	for _, q := range d.sets[s] {
		for _, e := range d.nfa.edges[q] {
			if e.set.has(r) {
				next = append(next, e.to)
			}
		}
	}
	t := -1
	if len(next) > 0 {
		t = d.intern(d.closure(next))
	}
	d.trans[s][r] = t
	return t
}

// matches runs the reference automaton on a string.
func (d *refDFA) matches(s string) bool {
	st := 0
	for _, r := range s {
		st = d.step(st, r)
		if st < 0 {
			return false
		}
	}
	return d.accepting(st)
}

// ------------------------------------------------------------------ language comparison

type langDiff struct {
	Equal    bool
	Witness  string // shortest string on which the two differ
	AAccepts bool   // whether a accepts the witness
	States   int    // product states explored
}

func mergeAlphabet(as ...[]rune) []rune {
	seen := map[rune]bool{}
	var out []rune
	for _, a := range as {
		for _, r := range a {
			if r != 0 && !seen[r] {
				seen[r] = true
				out = append(out, r)
			}
		}
	}
	// one fresh code point that nobody mentions: neither side may accept anything containing it
	for _, c := range []rune{0xE000, 0xE001, 0xE002, 0x7F, 0x01} {
		if !seen[c] {
			out = append(out, c)
			break
		}
	}
	sort.Slice(out, func(i, j int) bool { return out[i] < out[j] })
	return out
}

// langCompare decides L(a) == L(b) over all strings of non-NUL code points, by BFS over the product.
func langCompare(a, b detAuto, extra ...[]rune) langDiff {
	alpha := mergeAlphabet(append([][]rune{a.alphabet(), b.alphabet()}, extra...)...)
	type pair struct{ x, y int }
	type node struct {
		p      pair
		parent int
		via    rune
	}
	start := pair{a.startState(), b.startState()}
	seen := map[pair]bool{start: true}
	queue := []node{{start, -1, 0}}
	for i := 0; i < len(queue); i++ {
		cur := queue[i]
		ax, bx := a.accepting(cur.p.x), b.accepting(cur.p.y)
		if ax != bx {
			// rebuild witness
			var rs []rune
			for j := i; queue[j].parent >= 0; j = queue[j].parent {
				rs = append(rs, queue[j].via)
			}
			for l, r := 0, len(rs)-1; l < r; l, r = l+1, r-1 {
				rs[l], rs[r] = rs[r], rs[l]
			}
			return langDiff{false, string(rs), ax, len(seen)}
		}
		if cur.p.x < 0 && cur.p.y < 0 {
			continue
		}
		for _, r := range alpha {
			nx, ny := -1, -1
			if cur.p.x >= 0 {
				nx = a.step(cur.p.x, r)
			}
			if cur.p.y >= 0 {
				ny = b.step(cur.p.y, r)
			}
			np := pair{nx, ny}
			if nx < 0 && ny < 0 {
				continue
			}
			if !seen[np] {
				seen[np] = true
				queue = append(queue, node{np, i, r})
			}
		}
	}
	return langDiff{true, "", false, len(seen)}
}

// langInfo classifies the reference language: empty, only epsilon, or other; and counts reachable states.
func (d *refDFA) trivialLanguage() bool {
	// explore all reachable states over own alphabet
	alpha := mergeAlphabet(d.alpha)
	seen := map[int]bool{0: true}
	q := []int{0}
	anyAcc, nonEpsAcc := false, false
	for i := 0; i < len(q); i++ {
		s := q[i]
		if d.accepting(s) {
			anyAcc = true
			if i > 0 {
				nonEpsAcc = true
			}
		}
		for _, r := range alpha {
			t := d.step(s, r)
			if t >= 0 && !seen[t] {
				seen[t] = true
				q = append(q, t)
			}
		}
	}
	if !anyAcc {
		return true // empty
	}
	// {eps} only: start accepting and no other accepting state reachable (start may be re-entered though)
	if !nonEpsAcc {
		// is start reachable again by a non-empty string? then language has a non-empty sentence
		for _, s := range q {
			for _, r := range alpha {
				if d.step(s, r) == 0 {
					return false
				}
			}
		}
		return true
	}
	return false
}

// ------------------------------------------------------------------ reader of the documented pattern grammar

type patErr struct{ msg string }

func (e *patErr) Error() string { return e.msg }

type patParser struct {
	rs  []rune
	pos int
}

func (p *patParser) peek() rune {
	if p.pos < len(p.rs) {
		return p.rs[p.pos]
	}
	return -1
}
func (p *patParser) has(s string) bool {
	rs := []rune(s)
	if p.pos+len(rs) > len(p.rs) {
		return false
	}
	for i, r := range rs {
		if p.rs[p.pos+i] != r {
			return false
		}
	}
	return true
}

func isHexU(r rune) bool { return (r >= '0' && r <= '9') || (r >= 'A' && r <= 'F') }
func hexVal(r rune) int {
	if r <= '9' {
		return int(r - '0')
	}
	return int(r-'A') + 10
}

// parsePattern reads a pattern written with the documented constructs. It is deliberately strict: anything it does
// not understand is an error (the callers then mask the case rather than guess). Semantically meaningless patterns
// (descending ranges, {n,m} with n>m) are reported with sem=true.
func parsePattern(s string) (n *reNode, sem bool, err error) {
	p := &patParser{rs: []rune(s)}
	defer func() {
		if r := recover(); r != nil {
			if pe, ok := r.(*patErr); ok {
				n, err = nil, pe
				return
			}
			panic(r)
		}
	}()
	if p.peek() == '^' {
		p.pos++
	}
	semBad := false
	n = p.expr(&semBad)
	if p.pos != len(p.rs) {
		panic(&patErr{fmt.Sprintf("unexpected %q at %d", string(p.rs[p.pos]), p.pos)})
	}
	return n, semBad, nil
}

func (p *patParser) expr(sem *bool) *reNode {
	l := p.subexpr(sem)
	if p.peek() == '|' {
		p.pos++
		r := p.expr(sem)
		return alt(l, r)
	}
	return l
}

func (p *patParser) subexpr(sem *bool) *reNode {
	var kids []*reNode
	for {
		c := p.peek()
		if c == -1 || c == '|' || c == ')' {
			break
		}
		if c == '$' {
			// anchor: documented only as end-of-string; accepted here only at the very end of the pattern
			if p.pos != len(p.rs)-1 {
				panic(&patErr{"anchor '$' not at the end: meaning undocumented"})
			}
			p.pos++
			continue
		}
		if c == '(' {
			p.pos++
			e := p.expr(sem)
			if p.peek() != ')' {
				panic(&patErr{"missing )"})
			}
			p.pos++
			q := p.quantifier(sem)
			kids = append(kids, group(e, q))
			continue
		}
		m := p.matchItem(sem)
		q := p.quantifier(sem)
		kids = append(kids, quantified(m, q))
	}
	if len(kids) == 0 {
		panic(&patErr{"empty subexpression"})
	}
	if len(kids) == 1 {
		return kids[0]
	}
	return cat(kids...)
}

func (p *patParser) num() (int, bool) {
	st := p.pos
	v := 0
	for p.peek() >= '0' && p.peek() <= '9' {
		v = v*10 + int(p.peek()-'0')
		if v > 1<<20 {
			panic(&patErr{"number too large"})
		}
		p.pos++
	}
	return v, p.pos > st
}

func (p *patParser) quantifier(sem *bool) quant {
	var q quant
	switch p.peek() {
	case '?', '*', '+':
		q.kind = string(p.peek())
		p.pos++
	case '{':
		save := p.pos
		p.pos++
		lo, ok := p.num()
		if !ok {
			p.pos = save
			panic(&patErr{"bad repetition range"})
		}
		q.kind, q.lo, q.hi = "{", lo, lo
		if p.peek() == ',' {
			p.pos++
			hi, ok := p.num()
			if ok {
				q.form, q.hi = 2, hi
				if lo > hi {
					*sem = true
				}
			} else {
				q.form, q.hi = 1, -1
			}
		}
		if p.peek() != '}' {
			panic(&patErr{"bad repetition range"})
		}
		p.pos++
	default:
		return q
	}
	if p.peek() == '?' {
		q.lazy = true
		p.pos++
	}
	return q
}

// hexChar reads \xHH or \xHHHH(HHHH); longest documented form first, as the documented order
// (unicode_char | ascii_char) prescribes.
func (p *patParser) hexChar() (rune, string, bool) {
	if !p.has(`\x`) {
		return 0, "", false
	}
	n := 0
	for n < 8 && p.pos+2+n < len(p.rs) && isHexU(p.rs[p.pos+2+n]) {
		n++
	}
	if n == 3 {
		n = 2
	}
	if n < 2 {
		return 0, "", false
	}
	if n > 4 && n < 8 {
		// {4,8}: 5,6,7 digits are all legal
	}
	v := 0
	for i := 0; i < n; i++ {
		v = v<<4 + hexVal(p.rs[p.pos+2+i])
	}
	txt := string(p.rs[p.pos : p.pos+2+n])
	p.pos += 2 + n
	return rune(v), txt, true
}

func (p *patParser) matchItem(sem *bool) *reNode {
	c := p.peek()
	if c == '.' {
		p.pos++
		return leaf(".", rsASCII)
	}
	if r, txt, ok := p.hexChar(); ok {
		if r < 0 || r > 0x10FFFF {
			panic(&patErr{"code point out of range"})
		}
		return leaf(txt, rsOf(r))
	}
	if c == '\\' {
		for _, cn := range classNames {
			if p.has(cn) {
				p.pos += 2
				return leaf(cn, classSet[cn])
			}
		}
		if p.has(`\p{`) || p.has(`\P{`) {
			panic(&patErr{"unicode class: no documented meaning"})
		}
		if p.pos+1 < len(p.rs) && strings.ContainsRune(reMetaChars, p.rs[p.pos+1]) {
			r := p.rs[p.pos+1]
			p.pos += 2
			return leaf(`\`+string(r), rsOf(r))
		}
		panic(&patErr{"bad escape"})
	}
	if c == '[' {
		for _, pn := range posixNames {
			if p.has(pn) {
				p.pos += len(pn)
				return leaf(pn, posixSet[pn])
			}
		}
		return p.charGroup(sem)
	}
	if c >= 0x20 && c <= 0x7E && !strings.ContainsRune(reMetaChars, c) {
		p.pos++
		return leaf(string(c), rsOf(c))
	}
	panic(&patErr{fmt.Sprintf("unexpected %q", string(c))})
}

func (p *patParser) charInRange() (rune, bool) {
	if r, _, ok := p.hexChar(); ok {
		return r, true
	}
	c := p.peek()
	if c >= 0x20 && c <= 0x7E {
		p.pos++
		return c, true
	}
	return 0, false
}

func (p *patParser) charGroup(sem *bool) *reNode {
	st := p.pos
	p.pos++ // [
	neg := false
	if p.peek() == '^' {
		neg = true
		p.pos++
	}
	var set runeSet
	items := 0
	for {
		c := p.peek()
		if c == -1 {
			panic(&patErr{"unterminated ["})
		}
		if c == ']' && items > 0 {
			p.pos++
			break
		}
		// unicode class
		if p.has(`\p{`) || p.has(`\P{`) {
			panic(&patErr{"unicode class: no documented meaning"})
		}
		matched := false
		for _, pn := range posixNames {
			if p.has(pn) {
				p.pos += len(pn)
				set = rsUnion(set, posixSet[pn])
				matched = true
				break
			}
		}
		if !matched {
			for _, cn := range classNames {
				if p.has(cn) {
					p.pos += 2
					set = rsUnion(set, classSet[cn])
					matched = true
					break
				}
			}
		}
		if !matched {
			// char_range: char_in_range "-" char_in_range
			save := p.pos
			if lo, ok := p.charInRange(); ok && p.peek() == '-' {
				p.pos++
				if hi, ok := p.charInRange(); ok {
					if lo > hi {
						*sem = true
					} else {
						set = rsUnion(set, rsRange(lo, hi))
					}
					matched = true
				}
			}
			if !matched {
				p.pos = save
			}
		}
		if !matched {
			// single_char
			if r, _, ok := p.hexChar(); ok {
				set = rsUnion(set, rsOf(r))
				matched = true
			} else if c == '\\' {
				if p.pos+1 < len(p.rs) && strings.ContainsRune(reMetaChars, p.rs[p.pos+1]) {
					set = rsUnion(set, rsOf(p.rs[p.pos+1]))
					p.pos += 2
					matched = true
				}
			} else if c >= 0x20 && c <= 0x7E && !strings.ContainsRune(reMetaChars, c) {
				set = rsUnion(set, rsOf(c))
				p.pos++
				matched = true
			}
		}
		if !matched {
			panic(&patErr{fmt.Sprintf("bad item in [] at %d", p.pos)})
		}
		items++
	}
	if neg {
		set = rsNegASCII(set)
	}
	return leaf(string(p.rs[st:p.pos]), set)
}

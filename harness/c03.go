package main

// C03 - the combined scanner automaton: exact union, right winner, conflicts iff real.

import (
	"fmt"
	"regexp"
	"sort"
	"strconv"
	"strings"

	auto "github.com/moorara/algo/automata"
	"github.com/moorara/algo/grammar"

	ebnfparser "github.com/gardenbed/emerge/internal/ebnf/parser"
	"github.com/gardenbed/emerge/internal/ebnf/parser/spec"
)

func init() {
	register(&property{
		id:    "C03",
		level: "exploration",
		rule: "definition sets of size 1-6 drawn from a pool of ~70 definitions (string literals incl. escapes \\\" \\\\ and multi-escape literals, patterns, predefined patterns) built to be pairwise disjoint / identical-language / prefix-related / properly overlapping / keyword-inside-identifier / literal-equals-pattern-sentence / two or more patterns + a literal on the same text: ALL pairs, seeded triples and larger sets, in shuffled orders; part of them through the specification text (spec.Parse), part as Spec values. " +
			"Per set the FULL product of the reference automata and emerge's combined DFA is explored (BFS over a partitioned alphabet, not string sampling): in every reachable product state emerge's state is accepting <=> some definition matches; its owner is the only matcher, or the only string literal among several matchers; every terminal's state list is exactly the set of states it owns (none twice, none under two terminals, none unreachable); " +
			"and emerge reports 'conflicting definitions' <=> some text is matched by two or more definitions with no single literal to break the tie (the terminals it names must be real participants). non-trivial = >= 2 definitions whose languages intersect or are prefix-related; distinct by definition set.",
		assumptions: []string{
			"reference automata from R2 (patterns) and from the literal's characters with backslash escapes resolved",
			"two string literals with the same denotation (e.g. \"a\" and \"\\a\") are masked: the property does not say who wins",
			"definition sets hitting the open finding D20b (breadth-first traversal down to one state at a multiple of 64) carry its signature",
		},
		floorQuick: 2000, floorThorough: 30000,
		run: runC03,
	})
}

type poolDef struct {
	Name    string
	Value   string // raw value (for literals: the lexeme between the quotes)
	IsRegex bool
	Predef  string
}

func unescapeLiteral(v string) string {
	var b strings.Builder
	esc := false
	for _, r := range v {
		if r == '\\' && !esc {
			esc = true
			continue
		}
		esc = false
		b.WriteRune(r)
	}
	return b.String()
}

// literalAuto: deterministic automaton of a fixed string.
type literalAuto struct{ rs []rune }

func (l *literalAuto) startState() int { return 0 }
func (l *literalAuto) step(s int, r rune) int {
	if s >= 0 && s < len(l.rs) && l.rs[s] == r {
		return s + 1
	}
	return -1
}
func (l *literalAuto) accepting(s int) bool { return s == len(l.rs) }
func (l *literalAuto) alphabet() []rune     { return l.rs }

func c03Pool() []poolDef {
	lit := func(v string) poolDef { return poolDef{Name: v, Value: v} }
	tok := func(n, v string) poolDef { return poolDef{Name: n, Value: v, IsRegex: true} }
	stok := func(n, v string) poolDef { return poolDef{Name: n, Value: v} }
	pre := func(n, p string) poolDef {
		return poolDef{Name: n, Value: ebnfparser.Predefs[p], IsRegex: true, Predef: p}
	}
	return []poolDef{
		lit("if"), lit("in"), lit("int"), lit("i"), lit("iffy"), lit("+"), lit("++"), lit("+="), lit("="), lit("=="), lit("a"), lit("ab"), lit("abc"), lit("b"),
		lit(`a\"b`), lit(`\\`), lit(`\"\"`), lit(`x\\\\y`), lit(`\a`), lit(`\"`), lit("0"), lit("00"), lit("/*"), lit("//"), lit("{{"), lit("while"),
		stok("KW_IF", "if"), stok("KW_WHILE", "while"), stok("OP", "+"),
		tok("REC", `ab\x00c[0-9]`), tok("BIN", `key\x00`), tok("KEY", `key`), tok("VX", `v[0-9]{0}x`), tok("KZ", `k[a-z]{0}z`), tok("KAZ", `k[a-z]z`), tok("VZ", `v[0-9]{0,0}x?`),
		tok("TEXT", `[^\x01-\x1F\x7F]+`), tok("DEL", `\x7F`), tok("NOHI", `[^\x40-\x7F]`), tok("EDGE", `[\x7E-\x80]+`), tok("NOT_E", `[^e\x00E9]`),
		tok("ID", `[a-z]+`), tok("IDENT", `[a-z][a-z0-9_]*`), tok("ID2", `[a-z][a-z]*`), tok("WORD", `[a-zA-Z]+`), tok("UPPER", `[A-Z]+`),
		tok("NUM", `[0-9]+`), tok("NUM2", `[0-9][0-9]*`), tok("FLOAT", `[0-9]+\.[0-9]+`), tok("HEX", `0x[0-9a-f]+`), tok("ZERO", `0+`),
		tok("AS", `a+`), tok("AS2", `aa*`), tok("AB", `ab*`), tok("AC", `ac*`), tok("ABS", `(a|b)*abb`), tok("AOPT", `ab?c?`),
		tok("PLUSES", `\++`), tok("EQ", `==?`), tok("ANYQ", `"[^"]*"`), tok("STR", `"([a-z]|\\")*"`),
		tok("SLC", `\x2F\x2F[a-z ]*`), tok("DOT", `.`), tok("NOTA", `[^a]`), tok("I_STAR", `i[a-z]*`), tok("IF_OR_IN", `if|in`), tok("EMPTYISH", `a?b?c`),
		tok("N_DIG", `[0-9]*`), tok("N_LOW", `[a-z]*`), tok("N_SIGN", `-?`), tok("N_SP", `\x20*`), tok("N_AB", `(ab)*`),
		tok("A_IF", `^if`), tok("A_LOOP", `^loop`), tok("A_ABD", `ab$`), tok("A_BOTH", `^while$`), tok("A_ID", `^[a-z]+$`), tok("PLAIN", `begin`), lit("loop"), lit("begin"),
		tok("WSP", `[ \x09]+`), tok("ANY2", `..`), tok("DIG", `\d`), tok("WORDC", `\w+`), tok("ALNUM", `[[:alnum:]]+`),
		pre("P_ID", "$ID"), pre("P_NUM", "$NUMBER"), pre("P_WS", "$WS"), pre("P_DIGIT", "$DIGIT"), pre("P_LETTER", "$LETTER"), pre("P_STRING", "$STRING"), pre("P_COMMENT", "$COMMENT"),
	}
}

func refAutoOf(d poolDef) (detAuto, bool) {
	if !d.IsRegex {
		return &literalAuto{rs: []rune(unescapeLiteral(d.Value))}, true
	}
	t, sem, err := parsePattern(d.Value)
	if err != nil || sem {
		return nil, false
	}
	return newRefDFA(t), true
}

type c03Verdict struct {
	conflict      bool     // some text matched by >= 2 definitions without exactly one literal
	conflictNames []string // participants of such states
	twoLiterals   bool     // masked situation
	related       bool     // languages intersect or are prefix related (for the non-triviality rule)
	witness       string
}

// refProduct explores the product of the reference automata alone.
func refProduct(refs []detAuto, defs []poolDef, alpha []rune) c03Verdict {
	var v c03Verdict
	type node struct {
		st   []int
		path []rune
	}
	key := func(st []int) string { return fmt.Sprint(st) }
	start := make([]int, len(refs))
	for i, r := range refs {
		start[i] = r.startState()
	}
	seen := map[string]bool{key(start): true}
	queue := []node{{start, nil}}
	parts := map[string]bool{}
	for qi := 0; qi < len(queue) && qi < 200000; qi++ {
		cur := queue[qi]
		var matchers []int
		alive := 0
		for i, r := range refs {
			if cur.st[i] >= 0 {
				alive++
				if r.accepting(cur.st[i]) {
					matchers = append(matchers, i)
				}
			}
		}
		if len(matchers) >= 1 && alive >= 2 && len(cur.path) > 0 {
			v.related = true
		}
		if len(matchers) >= 2 {
			lits := 0
			for _, m := range matchers {
				if !defs[m].IsRegex {
					lits++
				}
			}
			if lits >= 2 {
				v.twoLiterals = true
			}
			if lits != 1 {
				v.conflict = true
				if v.witness == "" {
					v.witness = string(cur.path)
				}
				for _, m := range matchers {
					parts[defs[m].Name] = true
				}
			}
		}
		for _, a := range alpha {
			nx := make([]int, len(refs))
			any := false
			for i, r := range refs {
				nx[i] = -1
				if cur.st[i] >= 0 {
					nx[i] = r.step(cur.st[i], a)
				}
				if nx[i] >= 0 {
					any = true
				}
			}
			if !any {
				continue
			}
			k := key(nx)
			if !seen[k] {
				seen[k] = true
				queue = append(queue, node{nx, append(append([]rune{}, cur.path...), a)})
			}
		}
	}
	for n := range parts {
		v.conflictNames = append(v.conflictNames, n)
	}
	sort.Strings(v.conflictNames)
	return v
}

func c03Check(c *ctx, name string, defs []poolDef, viaText bool) {
	c.eval()
	var refs []detAuto
	var alphas [][]rune
	for _, d := range defs {
		a, ok := refAutoOf(d)
		if !ok {
			c.inconclusive("reference reader cannot read a pool pattern (harness)")
			c.note("unreadable pool pattern %q", d.Value)
			return
		}
		refs = append(refs, a)
		alphas = append(alphas, a.alphabet())
	}
	var dfa *auto.DFA
	var termMap map[grammar.Terminal][]auto.State
	var err error
	desc := describeDefs(defs)
	pv, stack := safely(func() {
		if viaText {
			var b strings.Builder
			b.WriteString("grammar g;\n")
			var uses []string
			for _, d := range defs {
				switch {
				case d.Predef != "":
					fmt.Fprintf(&b, "%s = %s\n", d.Name, d.Predef)
					uses = append(uses, d.Name)
				case d.IsRegex:
					fmt.Fprintf(&b, "%s = /%s/\n", d.Name, d.Value)
					uses = append(uses, d.Name)
				case d.Name == d.Value:
					uses = append(uses, `"`+d.Value+`"`)
				default:
					fmt.Fprintf(&b, "%s = \"%s\"\n", d.Name, d.Value)
					uses = append(uses, d.Name)
				}
			}
			fmt.Fprintf(&b, "start = %s;\n", strings.Join(uses, " "))
			s, perr := spec.Parse(fileName, strings.NewReader(b.String()))
			if perr != nil {
				err = fmt.Errorf("spec.Parse: %w", perr)
				return
			}
			dfa, termMap, err = s.DFA()
			desc = b.String()
		} else {
			s := &spec.Spec{Name: "g"}
			for _, d := range defs {
				s.Definitions = append(s.Definitions, &spec.TerminalDef{Terminal: grammar.Terminal(d.Name), Value: d.Value, IsRegex: d.IsRegex})
			}
			dfa, termMap, err = s.DFA()
		}
	})
	if pv != nil {
		c.inconclusive("panic (C14's business)")
		c.note("panic for %s: %v %s", desc, pv, firstLines(stack, 5))
		return
	}
	alpha := mergeAlphabet(alphas...)
	verdict := refProduct(refs, defs, alpha)
	if verdict.related && len(defs) >= 2 {
		c.nontrivial(desc)
	}
	bad := func(obs, exp string) {
		c.violate(violation{Case: name, Input: desc, Observed: obs, Expected: exp})
	}
	if err != nil {
		msg := err.Error()
		if strings.HasPrefix(msg, "spec.Parse:") {
			// literal text equal to a token name etc.: C07's domain
			c.inconclusive("specification rejected (C07's business)")
			return
		}
		if strings.Contains(msg, "index out of range [64]") && longChainInput(defs) {
			// input-side class of the open finding D20b: a definition that forces a chain of >= 60 states
			c.violate(violation{Sig: "combined-automaton-bfs-single-state-at-multiple-of-64", Case: name, Input: desc, Observed: firstLines(msg, 3), Expected: "an automaton"})
			return
		}
		if !strings.Contains(msg, "conflicting definitions capture the same string") {
			bad("Spec.DFA failed: "+firstLines(msg, 4), "an automaton or a definition-conflict report")
			return
		}
		c.count("conflicts_reported", 1)
		if verdict.twoLiterals {
			c.masked()
			return
		}
		if !verdict.conflict {
			bad("reports a definition conflict: "+firstLines(msg, 6), "no text is matched by two definitions without a single literal to break the tie")
			return
		}
		// the terminals named must be participants
		okNames := map[string]bool{}
		for _, n := range verdict.conflictNames {
			okNames[n] = true
		}
		for _, line := range strings.Split(msg, "\n") {
			line = strings.TrimSpace(line)
			if i := strings.LastIndex(line, ": "); i >= 0 && (strings.HasPrefix(line, fileName) || strings.HasPrefix(line, "<nil>")) {
				n := strings.Trim(line[i+2:], `"`)
				n = unquoteMaybe(line[i+2:])
				if !okNames[n] {
					bad(fmt.Sprintf("conflict report names %q", n), fmt.Sprintf("only definitions that take part in a real conflict: %q", verdict.conflictNames))
					return
				}
			}
		}
		return
	}
	if dfa == nil {
		bad("nil automaton without error", "an automaton")
		return
	}
	if verdict.twoLiterals {
		c.masked()
		return
	}
	if verdict.conflict {
		bad("no conflict reported", fmt.Sprintf("a definition conflict: the text %q is matched by %q with no single literal to break the tie", verdict.witness, verdict.conflictNames))
		return
	}
	// full product walk emerge x refs
	e := fromAutoDFA(dfa)
	owner := map[int]string{}
	for t, states := range termMap {
		seenS := map[int]bool{}
		for _, s := range states {
			if seenS[int(s)] {
				bad(fmt.Sprintf("state %d listed twice for terminal %q", s, t), "each state listed once")
				return
			}
			seenS[int(s)] = true
			if prev, ok := owner[int(s)]; ok {
				bad(fmt.Sprintf("state %d listed under both %q and %q", s, prev, t), "one owner per state")
				return
			}
			owner[int(s)] = string(t)
		}
	}
	type node struct {
		es   int
		st   []int
		path []rune
	}
	key := func(es int, st []int) string { return fmt.Sprint(es, st) }
	start := make([]int, len(refs))
	for i, r := range refs {
		start[i] = r.startState()
	}
	alphaAll := mergeAlphabet(alpha, e.alphabet())
	seen := map[string]bool{key(e.start, start): true}
	queue := []node{{e.start, start, nil}}
	reachedFinal := map[int]bool{}
	for qi := 0; qi < len(queue); qi++ {
		cur := queue[qi]
		var matchers []int
		for i, r := range refs {
			if cur.st[i] >= 0 && r.accepting(cur.st[i]) {
				matchers = append(matchers, i)
			}
		}
		eAcc := e.accepting(cur.es)
		if eAcc != (len(matchers) > 0) {
			bad(fmt.Sprintf("after %q the combined automaton is accepting=%v", string(cur.path), eAcc), fmt.Sprintf("%d definition(s) match that text", len(matchers)))
			return
		}
		if eAcc {
			reachedFinal[cur.es] = true
			want := ""
			if len(matchers) == 1 {
				want = defs[matchers[0]].Name
			} else {
				for _, m := range matchers {
					if !defs[m].IsRegex {
						want = defs[m].Name
					}
				}
			}
			if got := owner[cur.es]; got != want {
				bad(fmt.Sprintf("the text %q is attributed to terminal %q", string(cur.path), got), fmt.Sprintf("%q (the only definition matching, or the string literal among the matchers)", want))
				return
			}
		}
		for _, a := range alphaAll {
			ne := e.step(cur.es, a)
			nx := make([]int, len(refs))
			any := ne >= 0
			for i, r := range refs {
				nx[i] = -1
				if cur.st[i] >= 0 {
					nx[i] = r.step(cur.st[i], a)
				}
				if nx[i] >= 0 {
					any = true
				}
			}
			if !any {
				continue
			}
			k := key(ne, nx)
			if !seen[k] {
				seen[k] = true
				queue = append(queue, node{ne, nx, append(append([]rune{}, cur.path...), a)})
			}
		}
	}
	c.count("product_states_explored", int64(len(seen)))
	for s, t := range owner {
		if !reachedFinal[s] {
			bad(fmt.Sprintf("state %d is listed for terminal %q but no text reaches it as an accepting state", s, t), "every terminal's state list is exactly the set of states it owns")
			return
		}
	}
	for s := range e.final {
		if _, ok := owner[s]; !ok && reachedFinal[s] {
			bad(fmt.Sprintf("accepting state %d has no owner", s), "every accepting state attributed to one terminal")
			return
		}
	}
	if c.res.Evaluations%211 == 1 {
		c.sample(map[string]any{"definitions": desc, "combined_states": e.nst, "product_states": len(seen)})
	}
}

func unquoteMaybe(s string) string {
	s = strings.TrimSpace(s)
	if len(s) >= 2 && s[0] == '"' {
		var out string
		if _, err := fmt.Sscanf(s, "%q", &out); err == nil {
			return out
		}
	}
	return s
}

func describeDefs(defs []poolDef) string {
	var xs []string
	for _, d := range defs {
		switch {
		case d.Predef != "":
			xs = append(xs, fmt.Sprintf("%s = %s", d.Name, d.Predef))
		case d.IsRegex:
			xs = append(xs, fmt.Sprintf("%s = /%s/", d.Name, d.Value))
		default:
			xs = append(xs, fmt.Sprintf("%s = \"%s\"", d.Name, d.Value))
		}
	}
	return strings.Join(xs, " ; ")
}

func runC03(c *ctx) {
	pool := c03Pool()
	// singles and all pairs (both orders for a third of them)
	n := 0
	for i := range pool {
		if c.mineIdx(n) {
			c03Check(c, fmt.Sprintf("single%d", i), []poolDef{pool[i]}, i%2 == 0)
		}
		n++
	}
	for i := range pool {
		for j := i + 1; j < len(pool); j++ {
			if pool[i].Name == pool[j].Name {
				continue
			}
			if c.mineIdx(n) {
				defs := []poolDef{pool[i], pool[j]}
				if (i+j)%3 == 0 {
					defs = []poolDef{pool[j], pool[i]}
				}
				c03Check(c, fmt.Sprintf("pair%d.%d", i, j), defs, (i+j)%4 == 0)
			}
			n++
		}
	}
	c.exhaustive("all_pairs_of_the_definition_pool", true)
	// hand-picked larger sets
	pick := func(names ...string) []poolDef {
		var out []poolDef
		for _, nm := range names {
			for _, d := range pool {
				if d.Name == nm {
					out = append(out, d)
				}
			}
		}
		return out
	}
	for i, set := range [][]poolDef{
		pick("a", "AB", "AC"), pick("AB", "AC", "a", "b"), pick("if", "ID", "IDENT"), pick("if", "in", "int", "iffy", "ID"), pick("+", "++", "+=", "PLUSES"),
		pick("=", "==", "EQ"), pick("0", "00", "NUM", "ZERO"), pick("NUM", "FLOAT", "HEX", "0"), pick(`\"\"`, "ANYQ"), pick(`\"\"`, "STR", "ANYQ"), pick(`a\"b`, "ID", "ANYQ"),
		pick("KW_IF", "ID", "I_STAR"), pick("if", "KW_IF"), pick("a", `\a`), pick("AS", "AS2", "a"), pick("AS", "AS2", "a", "AB"), pick("DOT", "a", "NOTA"), pick("P_ID", "if", "P_NUM", "P_WS"),
		pick("P_COMMENT", "//", "/*", "SLC"), pick("P_STRING", "ANYQ"), pick("WORDC", "ID", "NUM", "if"), pick(`x\\\\y`, `\\`, "ID"),
	} {
		if c.mineIdx(n) {
			c03Check(c, fmt.Sprintf("picked%d", i), set, i%2 == 0)
		}
		n++
	}
	// very long single definitions (open finding D20b: the dependency's queue fails at multiples of 64 states)
	for i, set := range [][]poolDef{
		{{Name: "LONG", Value: `a{64}`, IsRegex: true}},
		{{Name: "DIGEST", Value: `[0-9a-f]{64}`, IsRegex: true}},
		{{Name: strings.Repeat("k", 70), Value: strings.Repeat("k", 70)}},
		{{Name: "LONG", Value: `a{64}`, IsRegex: true}, {Name: "ID", Value: `[a-z]+b`, IsRegex: true}, {Name: "if", Value: "if"}},
		{{Name: "L63", Value: `a{63}`, IsRegex: true}},
		{{Name: "L130", Value: `(ab){65}`, IsRegex: true}, {Name: "NUM", Value: `[0-9]+`, IsRegex: true}},
	} {
		if c.mineIdx(n) {
			c03Check(c, fmt.Sprintf("long%d", i), set, false)
		}
		n++
	}
	// many definitions at once (more than 64: whatever is indexed by definition must cope)
	{
		words := []string{}
		for a := 'a'; a <= 'z' && len(words) < 90; a++ {
			for _, suf := range []string{"x", "yy", "zq", "k1"} {
				words = append(words, string(a)+suf)
			}
		}
		for i, nLits := range []int{10, 63, 64, 65, 70, 90} {
			var set []poolDef
			for _, w := range words[:nLits] {
				set = append(set, poolDef{Name: w, Value: w})
			}
			base := append(append([]poolDef{}, set...), poolDef{Name: "ID", Value: `[a-z][a-z0-9]*`, IsRegex: true}, poolDef{Name: "NUM", Value: `[0-9]+`, IsRegex: true})
			withConflict := append(append([]poolDef{}, base...), poolDef{Name: "INT", Value: `\d+`, IsRegex: true})
			withShadowed := append(append([]poolDef{}, base...), poolDef{Name: "KW", Value: words[nLits-1] + "|" + words[0], IsRegex: true})
			for j, s2 := range [][]poolDef{base, withConflict, withShadowed} {
				if c.mineIdx(n) {
					c03Check(c, fmt.Sprintf("many%d.%d", i, j), s2, false)
				}
				n++
			}
		}
	}
	// seeded triples and larger
	r := c.rng("sets")
	for i := 0; i < c.n(6000, 300000); i++ {
		k := 3 + r.intn(4)
		set := shuffled(r, pool)[:k]
		names := map[string]bool{}
		dup := false
		for _, d := range set {
			if names[d.Name] {
				dup = true
			}
			names[d.Name] = true
		}
		if dup {
			continue
		}
		if c.mine() {
			c03Check(c, fmt.Sprintf("set%d", i), set, i%3 == 0)
		}
	}
	// the NAME of a token must not matter: the same pairs and sets with pattern definitions renamed to names that mean
	// something elsewhere in the tool (the terminals the generated lexer discards, the built-in token names ...)
	special := []string{"WS", "EOL", "COMMENT", "ERR", "EOF", "IDENT", "TOKEN", "STRING", "REGEX", "START"}
	rename := func(set []poolDef, rr *rng, howMany int) []poolDef {
		out := append([]poolDef{}, set...)
		names := shuffled(rr, special)
		k := 0
		for i := range out {
			if k < howMany && (out[i].IsRegex || out[i].Predef != "") {
				out[i].Name = names[k]
				k++
			}
		}
		return out
	}
	rn := c.rng("renamed")
	var patterns []poolDef
	for _, d := range pool {
		if d.IsRegex || d.Predef != "" {
			patterns = append(patterns, d)
		}
	}
	for i := range patterns {
		for j := i + 1; j < len(patterns); j++ {
			if !c.mineIdx(n) {
				n++
				continue
			}
			n++
			c03Check(c, fmt.Sprintf("renamed-pair%d.%d", i, j), rename([]poolDef{patterns[i], patterns[j]}, rn, 1+(i+j)%2), false)
		}
	}
	for i := 0; i < c.n(1500, 60000); i++ {
		set := shuffled(rn, pool)[:2+rn.intn(4)]
		seen := map[string]bool{}
		dup := false
		for _, d := range set {
			dup = dup || seen[d.Name]
			seen[d.Name] = true
		}
		if dup {
			continue
		}
		if c.mine() {
			c03Check(c, fmt.Sprintf("renamed-set%d", i), rename(set, rn, 1+rn.intn(2)), i%3 == 0)
		}
	}
}

var reBigCount = regexp.MustCompile(`\{(\d+)`)

// longChainInput: some definition forces a chain of at least 60 automaton states (a literal of >= 60 characters or a
// repetition count >= 30).
func longChainInput(defs []poolDef) bool {
	for _, d := range defs {
		if !d.IsRegex && len([]rune(d.Value)) >= 60 {
			return true
		}
		if d.IsRegex {
			for _, m := range reBigCount.FindAllStringSubmatch(d.Value, -1) {
				if n, err := strconv.Atoi(m[1]); err == nil && n >= 30 {
					return true
				}
			}
		}
	}
	return false
}

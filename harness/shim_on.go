//go:build verif

package main

const buildMode = "shim"

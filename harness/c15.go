package main

// C15 - the same specification and options give byte-identical output and diagnostics.

import (
	"bytes"
	"crypto/sha256"
	"fmt"
	"io"
	"os"
	"os/exec"
	"path/filepath"
	"sort"
	"strings"
	"time"

	"github.com/gardenbed/charm/ui"

	"github.com/gardenbed/emerge/internal/ebnf/parser/spec"
	"github.com/gardenbed/emerge/internal/generate/golang"
)

func init() {
	register(&property{
		id:    "C15",
		level: "exploration",
		rule: "specifications: the fixtures, definition sets with many states per terminal (overlapping keywords/identifiers), texts with several well-formedness defects at once (many diagnostics), >= 2 distinct definition conflicts, >= 2 invalid patterns, grammars with several LALR conflicts (long reports), with and without -name/-debug/-verbose. " +
			"Each is run K times (6 quick, 20 thorough) in FRESH PROCESSES of the real CLI into K empty directories, and K times in-process (spec.Parse + Spec.DFA + LALRParsingTable + golang.Generate) in one harness process: every byte of every emitted file, stdout, stderr (ANSI sequences and non-ASCII decoration removed, output directory normalised) and the exit status must be identical across the K observations. " +
			"non-trivial = output has a terminal owning >= 2 states, or >= 2 diagnostics; distinct by (text, options).",
		assumptions: []string{"the decorative emoji (all non-ASCII runes of the progress lines) and ANSI colour sequences are outside the property and are stripped", "each process gets its own map-iteration seeds from the Go runtime; K repetitions sample them"},
		floorQuick:  200, floorThorough: 4000,
		run: runC15,
	})
}

type cliObs struct {
	Exit  int
	Out   string // normalised stdout+stderr
	Files map[string]string
}

func normaliseOutput(s, dir string) string {
	s = stripANSI(s)
	s = strings.ReplaceAll(s, dir, "<OUT>")
	var b strings.Builder
	for _, r := range s {
		if r < 0x80 {
			b.WriteRune(r)
		}
	}
	return b.String()
}

func snapshotFiles(root string) map[string]string {
	out := map[string]string{}
	_ = filepath.Walk(root, func(p string, info os.FileInfo, err error) error {
		if err != nil || info.IsDir() {
			return nil
		}
		rel, _ := filepath.Rel(root, p)
		b, _ := os.ReadFile(p)
		out[rel] = string(b)
		return nil
	})
	return out
}

func runCLI(bin string, specFile string, outDir string, extra []string) cliObs {
	args := append([]string{"-out", outDir}, extra...)
	args = append(args, specFile)
	cmd := exec.Command(bin, args...)
	var out bytes.Buffer
	cmd.Stdout, cmd.Stderr = &out, &out
	err := cmd.Run()
	o := cliObs{Out: normaliseOutput(out.String(), outDir), Files: snapshotFiles(outDir)}
	if ee, ok := err.(*exec.ExitError); ok {
		o.Exit = ee.ExitCode()
	} else if err != nil {
		o.Exit = -1
	}
	return o
}

// runCLIPiped: the specification reaches the tool through a pipe on /dev/stdin, written in the given pieces with a
// pause between them (a writer that is descheduled half-way, a producer that flushes twice).
func runCLIPiped(bin string, pieces []string, outDir string, extra []string) cliObs {
	args := append([]string{"-out", outDir}, extra...)
	args = append(args, "/dev/stdin")
	cmd := exec.Command(bin, args...)
	var out bytes.Buffer
	cmd.Stdout, cmd.Stderr = &out, &out
	w, err := cmd.StdinPipe()
	if err != nil {
		return cliObs{Exit: -1}
	}
	if err := cmd.Start(); err != nil {
		return cliObs{Exit: -1}
	}
	for i, p := range pieces {
		if i > 0 {
			time.Sleep(150 * time.Millisecond)
		}
		_, _ = io.WriteString(w, p)
	}
	_ = w.Close()
	err = cmd.Wait()
	o := cliObs{Out: normaliseOutput(out.String(), outDir), Files: snapshotFiles(outDir)}
	if ee, ok := err.(*exec.ExitError); ok {
		o.Exit = ee.ExitCode()
	} else if err != nil {
		o.Exit = -1
	}
	return o
}

func diffObs(a, b cliObs) string {
	if a.Exit != b.Exit {
		return fmt.Sprintf("exit status %d vs %d", a.Exit, b.Exit)
	}
	if a.Out != b.Out {
		return "messages differ: " + firstDiffLine(b.Out, a.Out)
	}
	var names []string
	for n := range a.Files {
		names = append(names, n)
	}
	for n := range b.Files {
		if _, ok := a.Files[n]; !ok {
			names = append(names, n)
		}
	}
	sort.Strings(names)
	for _, n := range names {
		x, okx := a.Files[n]
		y, oky := b.Files[n]
		if okx != oky {
			return "file " + n + " exists in only one of the runs"
		}
		if x != y {
			return "file " + n + " differs: " + firstDiffLine(y, x)
		}
	}
	return ""
}

type c15Case struct {
	name  string
	text  string
	flags []string
}

func c15Cases(c *ctx) []c15Case {
	var out []c15Case
	add := func(name, text string, flags ...string) { out = append(out, c15Case{name, text, flags}) }
	for i, f := range fixtures() {
		add(fmt.Sprintf("fixture%d", i), f)
		if c.thorough() {
			add(fmt.Sprintf("fixture%d-named", i), f, "-name", "pkgx", "-verbose")
		}
	}
	add("keywords", "grammar kw;\nID = /[a-z][a-z0-9_]*/\nNUM = /[0-9]+(\\.[0-9]+)?/\nWS = $WS\nstart = {stmt};\nstmt = \"if\" ID \"then\" stmt \"else\" stmt | \"while\" ID \"do\" stmt | \"for\" ID \"in\" NUM \"..\" NUM | \"iffy\" | \"in\" | \"int\" | \"integer\" | ID \"=\" NUM \";\" ;\n")
	add("keywords-debug", "grammar kw2;\nID = /[a-z]+/\nstart = \"a\" | \"ab\" | \"abc\" | \"abd\" | \"b\" | \"bc\" | ID ;\n", "-debug")
	add("two-conflicts", "grammar g;\nAA = /a+/\nAB = /aa*/\nBA = /b+/\nBB = /bb*/\nCA = /c|cc+/\nCB = /c+/\nstart = AA AB BA BB CA CB;\n")
	add("three-conflicts-literal", "grammar g;\nAA = /x[0-9]+/\nAB = /x[0-9][0-9]*/\nBA = /y+/\nBB = /y{1,}/\nCA = /z?z/\nCB = /z|zz/\nstart = AA AB BA BB CA CB \"x1\";\n")
	add("seven-invalid-patterns", "grammar g;\nP1 = /[9-0]/\nP2 = /a{3,1}/\nP3 = /(/\nP4 = /[z-a]+/\nP5 = /x{9,2}y/\nP6 = /a)/\nP7 = /[b-a][d-c]/\nstart = P1 P2 P3 P4 P5 P6 P7;\n")
	add("many-defects", "grammar g;\nTA = \"x\"\nTA = \"y\"\nTB = \"same\"\nTC = \"same\"\nTD = \"same2\"\nTE = \"same2\"\nTF = $NOPE\nTG = $NOPE2\nstart = TA TB TC TD TE UNDEF1 UNDEF2 nowhere1 nowhere2 \"same\" \"same2\";\n")
	add("same-values", "grammar g;\nT1 = \"v1\" T2 = \"v1\" T3 = \"v2\" T4 = \"v2\" T5 = \"v3\" T6 = \"v3\" T7 = \"v4\" T8 = \"v4\"\nstart = T1 T2 T3 T4 T5 T6 T7 T8;\n")
	add("two-levels", "grammar g;\n@left \"a\" \"b\" \"c\"\n@right \"a\" \"b\" \"c\"\n@none \"c\" \"b\"\nstart = \"a\" \"b\" \"c\";\n")
	add("lalr-conflicts", "grammar g;\nstart = e;\ne = e \"+\" e | e \"*\" e | e \"-\" e | e \"/\" e | \"!\" e | e \"?\" e \":\" e | \"n\" ;\n")
	add("lalr-conflicts-partial", "grammar g;\n@left \"*\" \"/\"\nstart = e;\ne = e \"+\" e | e \"*\" e | e \"-\" e | e \"/\" e | \"(\" e \")\" | \"n\" | s;\ns = \"if\" e s | \"if\" e s \"else\" s | \"x\";\n")
	add("undefined-nonterminals-only", "grammar g;\nstart = alpha beta gamma delta | epsilon zeta eta theta | iota kappa;\n")
	add("undefined-nonterminals-in-handles", "grammar g;\n@left <start = start lambda mu>\n@right <start = nu xi>\nstart = \"a\" omicron | pi rho;\n")
	add("shared-handles-in-levels", "grammar g;\n@left \"a\" \"b\" \"c\" \"d\" \"e\" <start = start \"a\"> <start = start \"b\">\n@right \"e\" \"d\" \"c\" \"b\" \"a\" <start = start \"b\"> <start = start \"a\">\nstart = start \"a\" | start \"b\" | \"c\" | \"d\" | \"e\";\n")
	// cyclic grammars (A =>+ A), with a non-terminal outside the cycle that unit-derives into it, under every order of the
	// names: what the table builder does with a cycle depends on hash order, so emerge has to report it up front
	{
		k := 0
		for _, names := range [][]string{{"atom", "start", "term"}, {"start", "term", "unit"}, {"aa", "bb", "start"}, {"start", "zz", "aa"}, {"term", "start", "atom"}, {"mm", "start", "bb"}} {
			// names[0], names[1] form the cycle; names[2] is the outsider
			c1, c2, o := names[0], names[1], names[2]
			rules := map[string]string{
				c1: c2 + " | \"x\"",
				c2: c1 + " | NUM",
				o:  c2,
			}
			if c1 != "start" && c2 != "start" {
				rules[o] = c2 + " | \"-\" " + c1
			} else {
				// start is on the cycle: make the outsider reachable
				rules["start"] += " | \"-\" " + o
			}
			var b strings.Builder
			b.WriteString("grammar cyc;\nNUM = /[0-9]+/\n")
			for _, n := range []string{"start", c1, c2, o} {
				if r, ok := rules[n]; ok {
					fmt.Fprintf(&b, "%s = %s;\n", n, r)
					delete(rules, n)
				}
			}
			add(fmt.Sprintf("cycle%d", k), b.String())
			k++
		}
		add("cycle-three", "grammar cyc;\nstart = aa | \"s\";\naa = bb | \"a\";\nbb = cc;\ncc = aa | \"c\";\n")
		add("cycle-through-nullable", "grammar cyc;\nstart = aa;\naa = [\"x\"] bb {\"y\"} | \"a\";\nbb = aa | \"b\";\n")
		add("self-loop-late", "grammar cyc;\nstart = \"s\" zz;\nzz = zz | \"z\";\n")
	}
	add("keywords-in-both-cases", "grammar sql;\nID = /[a-z_]+[0-9]*/\nstart = {\"select\" | \"SELECT\" | \"Select\" | \"from\" | \"FROM\" | \"where\" | \"WHERE\" | \"wHERE\" | \"ab\" | \"AB\" | \"aB\" | \"Ab\" | ID};\n")
	add("tokens-differing-in-case-of-value", "grammar cs;\nTA = \"end\"\nTB = \"END\"\nTC = \"End\"\nTD = /e+nd/\nstart = {TA | TB | TC | TD | \"eND\" | \"enD\"};\n")
	add("sixteen-undefined-non-terminals", "grammar draft;\nstart = n01 n02 n03 n04 | n05 n06 n07 n08 | n09 n10 n11 n12 | n13 n14 n15 n16 | zz aa mm;\n")
	add("twenty-undefined-tokens", "grammar draft;\nstart = T01 T02 T03 T04 T05 T06 T07 T08 T09 T10 | T11 T12 T13 T14 T15 T16 T17 T18 T19 T20;\n")
	add("no-start", "grammar g;\na = b; b = c; c = \"x\";\n")
	r := c.rng("gen")
	for i := 0; i < c.n(12, 150); i++ {
		g := genWellFormedSpec(r, wfOpts{nNT: 1 + r.intn(3), nTok: 1 + r.intn(4), nStr: 3 + r.intn(8), nExtraRules: r.intn(3), nDirectives: r.intn(3), depth: 1 + r.intn(2), ruleHandles: true})
		add(fmt.Sprintf("wellformed%d", i), canonicalText(g))
	}
	for i := 0; i < c.n(12, 150); i++ {
		g := genWellFormedSpec(r, wfOpts{nNT: 1 + r.intn(3), nTok: 2 + r.intn(3), nStr: 3 + r.intn(5), nExtraRules: r.intn(2), nDirectives: r.intn(3), depth: 1 + r.intn(2)})
		for k := 2 + r.intn(4); k > 0; k-- {
			injectors[r.intn(len(injectors))].f(r, g, r.intn(6))
		}
		add(fmt.Sprintf("defects%d", i), canonicalText(g))
	}
	return out
}

func runC15(c *ctx) {
	bin := filepath.Join(verifDir, "bin", "emerge")
	// the same specification through a pipe, written at once / in two pieces / in five pieces with pauses
	if c.shard == 4%c.of {
		if root, err := os.MkdirTemp("", "verif-c15p-"); err == nil {
			defer os.RemoveAll(root)
			for si, text := range []string{
				"grammar piped;\nID = /[a-z]+/\nNUM = /[0-9]+/\n@left \"+\"\nstart = e;\ne = e \"+\" e | ID | NUM | \"(\" e \")\";\n// " + strings.Repeat("tail ", 40) + "\nextra = \"x\" e;\n",
				"grammar pipedbad;\nstart = a b c;\n" + strings.Repeat("// filler filler filler\n", 300) + "a = \"a\";\nb = ( ;\n",
			} {
				var first cliObs
				for vi, cuts := range [][]int{{}, {len(text) / 2}, {10, len(text) / 3, len(text) / 2, len(text) - 5}, {4096}, {len(text) - 1}} {
					var pieces []string
					prev := 0
					for _, cut := range cuts {
						if cut > prev && cut < len(text) {
							pieces = append(pieces, text[prev:cut])
							prev = cut
						}
					}
					pieces = append(pieces, text[prev:])
					outDir := filepath.Join(root, fmt.Sprintf("p%d_%d", si, vi))
					_ = os.MkdirAll(outDir, 0o755)
					o := runCLIPiped(bin, pieces, outDir, nil)
					c.eval()
					c.count("cli_processes_reading_from_a_pipe", 1)
					c.nontrivial(fmt.Sprintf("piped/%d/%d", si, vi))
					if vi == 0 {
						first = o
						continue
					}
					if d := diffObs(first, o); d != "" {
						c.violate(violation{Case: fmt.Sprintf("piped%d/%d-pieces", si, len(pieces)), Input: map[string]any{"spec": firstLines(text, 6), "written_in_pieces_of": cuts},
							Observed: "written in pieces: " + d, Expected: "the same files, diagnostics and exit status as when the specification is written at once"})
						break
					}
				}
			}
		}
	}
	K := c.n(6, 20)
	root, err := os.MkdirTemp("", "verif-c15-")
	if err != nil {
		c.inconclusive("mktemp")
		return
	}
	defer os.RemoveAll(root)
	var lastName string
	var lastStart time.Time
	flush := func() {
		if lastName != "" {
			c.note("case %s took %.1fs", lastName, time.Since(lastStart).Seconds())
		}
	}
	defer flush()
	for ci, cs := range c15Cases(c) {
		if !c.mineIdx(ci) {
			continue
		}
		flush()
		lastName, lastStart = cs.name, time.Now()
		specFile := filepath.Join(root, fmt.Sprintf("s%d", ci), "in.ebnf")
		_ = os.MkdirAll(filepath.Dir(specFile), 0o755)
		_ = os.WriteFile(specFile, []byte(cs.text), 0o644)
		// fresh processes (the large fixtures cost 5-10 s per run: fewer repetitions in the quick tier)
		K := K
		slow := false
		var first cliObs
		ok := true
		for k := 0; k < K; k++ {
			outDir := filepath.Join(root, fmt.Sprintf("s%d", ci), fmt.Sprintf("run%d", k))
			_ = os.MkdirAll(outDir, 0o755)
			tRun := time.Now()
			o := runCLI(bin, specFile, outDir, cs.flags)
			_ = os.RemoveAll(outDir)
			if k == 0 && c.quick() && time.Since(tRun) > 3*time.Second {
				slow = true
				K = 2
			}
			c.eval()
			c.count("cli_processes", 1)
			if strings.Contains(o.Out, "goroutine ") && strings.Contains(o.Out, "panic") {
				c.inconclusive("CLI crashed (C14's business)")
				ok = false
				break
			}
			if k == 0 {
				first = o
				continue
			}
			if d := diffObs(first, o); d != "" {
				c.violate(violation{Case: cs.name + "/processes", Input: map[string]any{"spec": cs.text, "flags": cs.flags}, Observed: fmt.Sprintf("run #%d differs from run #0: %s", k, d), Expected: "byte-identical files, same diagnostics in the same order, same exit status"})
				ok = false
				break
			}
		}
		if !ok {
			continue
		}
		nDiag := strings.Count(first.Out, "\n")
		multiState := false
		if lx, okf := first.Files[filepath.Join(pkgNameOf(cs), "lexer.go")]; okf {
			for _, line := range strings.Split(lx, "\n") {
				if strings.HasPrefix(strings.TrimSpace(line), "case ") && strings.Contains(line, ", ") && !strings.Contains(line, "'") {
					multiState = true
				}
			}
		}
		if multiState || (first.Exit != 0 && nDiag >= 2) {
			c.nontrivial(cs.name + cs.text + fmt.Sprint(cs.flags))
		}
		h := sha256.New()
		for n, b := range first.Files {
			h.Write([]byte(n))
			h.Write([]byte(b))
		}
		c.sample(map[string]any{"case": cs.name, "exit": first.Exit, "files": len(first.Files), "output_lines": nDiag, "runs_compared": K})
		// in-process repetitions (skipped in the quick tier for the specifications that take seconds per run)
		if slow {
			continue
		}
		var base string
		for k := 0; k < K; k++ {
			outDir := filepath.Join(root, fmt.Sprintf("s%d", ci), fmt.Sprintf("inproc%d", k))
			_ = os.MkdirAll(outDir, 0o755)
			var rendering strings.Builder
			pv, _ := safely(func() {
				s, err := spec.Parse(fileName, strings.NewReader(cs.text))
				if err != nil {
					rendering.WriteString("parse error: " + err.Error())
					return
				}
				if _, _, err := s.DFA(); err != nil {
					rendering.WriteString("dfa error: " + err.Error() + "\n")
				}
				gerr := golang.Generate(ui.NewNop(), &golang.Params{Path: outDir, Spec: s})
				if gerr != nil {
					rendering.WriteString("generate error: " + gerr.Error() + "\n")
				}
				files := snapshotFiles(outDir)
				var names []string
				for n := range files {
					names = append(names, n)
				}
				sort.Strings(names)
				for _, n := range names {
					fmt.Fprintf(&rendering, "== %s\n%s\n", n, files[n])
				}
			})
			_ = os.RemoveAll(outDir)
			c.eval()
			c.count("in_process_repetitions", 1)
			if pv != nil {
				c.inconclusive("panic (C14's business)")
				break
			}
			got := strings.ReplaceAll(rendering.String(), outDir, "<OUT>")
			if k == 0 {
				base = got
			} else if got != base {
				c.violate(violation{Case: cs.name + "/in-process", Input: map[string]any{"spec": cs.text}, Observed: fmt.Sprintf("repetition #%d differs from #0: %s", k, firstDiffLine(got, base)), Expected: "identical results of repeated in-process invocations"})
				break
			}
		}
	}
}

func pkgNameOf(cs c15Case) string {
	for i, f := range cs.flags {
		if f == "-name" && i+1 < len(cs.flags) {
			return cs.flags[i+1]
		}
	}
	t := strings.TrimSpace(cs.text)
	// skip leading comments
	for strings.HasPrefix(t, "/*") || strings.HasPrefix(t, "//") {
		if strings.HasPrefix(t, "/*") {
			if i := strings.Index(t, "*/"); i >= 0 {
				t = strings.TrimSpace(t[i+2:])
				continue
			}
		}
		if i := strings.Index(t, "\n"); i >= 0 {
			t = strings.TrimSpace(t[i+1:])
			continue
		}
		break
	}
	f := strings.Fields(t)
	if len(f) >= 2 {
		return strings.TrimRight(f[1], ";")
	}
	return ""
}

package main

// C14 - no input crashes or hangs emerge; failures are errors and clean non-zero exits.

import (
	"bytes"
	"fmt"
	"math"
	"os"
	"os/exec"
	"path/filepath"
	"regexp"
	"strconv"
	"strings"
	"sync/atomic"
	"syscall"
	"time"

	auto "github.com/moorara/algo/automata"
	"github.com/moorara/algo/grammar"

	"github.com/gardenbed/charm/ui"
	"github.com/gardenbed/emerge/internal/generate/golang"

	east "github.com/gardenbed/emerge/internal/ebnf/parser/ast"
	"github.com/gardenbed/emerge/internal/ebnf/parser/spec"
	rast "github.com/gardenbed/emerge/internal/regex/parser/ast"
	"github.com/gardenbed/emerge/internal/regex/parser/nfa"
)

func init() {
	register(&property{
		id:    "C14",
		level: "exploration",
		rule: "specification texts: random bytes (incl. invalid UTF-8, NUL, 8-bit), EVERY prefix of every fixture and of generated specifications, byte- and token-level mutations of valid ones, token soup (random sequences of valid tokens: reaches the type assertions of the reduce actions), deep nesting and long alternations; " +
			"patterns: all strings up to length 3 over a 24-symbol metacharacter alphabet plus seeded longer ones, the empty string, escapes above U+007F inside and outside brackets, \\p{..} in brackets, 8-digit \\x, large repetition counts ({64}, {100}); command lines: ~150 flag/argument combinations of the real binary. " +
			"Each entry point (spec.Parse -> Spec.DFA -> LALRParsingTable, ebnf ast.Parse, nfa.Parse -> ToDFA, regex ast.Parse -> ToDFA) runs in a worker process that writes the input to disk first: a recovered panic, the death of the worker, 'success' with a nil result, or a run that uses more CPU time than its size allows without finishing (40 s of CPU for inputs <= 1 KiB, 120 s for <= 4 KiB; the unchanged tree needs milliseconds to a few seconds) is a violation; CLI: non-zero exit and a message on every error, never 'goroutine'/'panic:'/'runtime error' in the output. " +
			"non-trivial = text with >= 1 token reaching the parser, or pattern of >= 2 characters; distinct by input.",
		assumptions: []string{
			"resource bounds are not hangs: repetition counts above 100 and ranges above U+FFFF wide are not generated",
			"an input larger than 4 KiB that exceeds 240 s of CPU time, or any input that exceeds 15 min of wall-clock time on an overloaded machine, is inconclusive, not a violation; the hang verdict is taken on CPU time so that machine load cannot cause it",
		},
		floorQuick: 20000, floorThorough: 500000,
		run: runC14,
	})
	deadShardHandlers["C14"] = func(last, output string) *violation {
		if last == "" {
			return nil
		}
		kind := "worker process died (fatal error / stack overflow / killed)"
		if strings.HasPrefix(last, "STALL ") {
			return nil // wall-clock backstop on an overloaded machine: inconclusive
		}
		if strings.HasPrefix(last, "HANG ") {
			kind = "did not finish within the CPU-time limit for its size"
			last = strings.TrimPrefix(last, "HANG ")
			if _, verdict := c14Limit(len(last)); !verdict {
				return nil // inconclusive by the stated rule
			}
		}
		return &violation{Case: "worker-death", Input: last, Observed: kind + ": " + firstLines(output, 12), Expected: "a result or an error value"}
	}
}

var c14Current atomic.Value // string: the input being processed
var c14Started atomic.Int64

// cpuSeconds: CPU time (user + system, all threads) this worker process has consumed so far. The hang verdict is
// taken on CPU time, not wall-clock time, so that a loaded machine cannot turn a slow input into a "hang".
func cpuSeconds() float64 {
	var ru syscall.Rusage
	if err := syscall.Getrusage(syscall.RUSAGE_SELF, &ru); err != nil {
		return 0
	}
	return float64(ru.Utime.Sec+ru.Stime.Sec) + float64(ru.Utime.Usec+ru.Stime.Usec)/1e6
}

var c14StartCPU atomic.Uint64 // math.Float64bits of cpuSeconds() when the current input started

// c14Limit: CPU seconds an input of this size may take; violation tells whether exceeding it is a verdict (small inputs,
// which take milliseconds on the unchanged tree) or only inconclusive (large ones: super-linear but finite costs exist).
func c14Limit(n int) (cpu float64, verdict bool) {
	switch {
	case n <= 1024:
		return 40, true
	case n <= 4096:
		return 120, true
	}
	return 240, false
}

func c14Watchdog(c *ctx) {
	go func() {
		for {
			time.Sleep(time.Second)
			st := c14Started.Load()
			if st == 0 {
				continue
			}
			in, _ := c14Current.Load().(string)
			used := cpuSeconds() - math.Float64frombits(c14StartCPU.Load())
			limit, _ := c14Limit(len(in))
			wall := time.Since(time.Unix(0, st))
			if c14Started.Load() != st {
				continue // the input finished meanwhile
			}
			if used > limit {
				c.guard("HANG " + in)
				fmt.Fprintf(os.Stderr, "watchdog: input used %.0f s of CPU time without finishing (limit %.0f s for %d bytes): %q\n", used, limit, len(in), in)
				os.Exit(3)
			}
			if wall > 15*time.Minute {
				c.guard("STALL " + in)
				fmt.Fprintf(os.Stderr, "watchdog: input did not finish in %v of wall-clock time (only %.0f s of CPU time: the machine is overloaded): %q\n", wall, used, in)
				os.Exit(3)
			}
		}
	}()
}

func c14Run(c *ctx, kind, input string, f func() (resultNil bool, err error)) {
	c.eval()
	c.guard(kind + " " + input)
	c14Current.Store(kind + " " + input)
	cpu0 := cpuSeconds()
	c14StartCPU.Store(math.Float64bits(cpu0))
	c14Started.Store(time.Now().UnixNano())
	var resNil bool
	var err error
	pv, stack := safely(func() { resNil, err = f() })
	el := time.Since(time.Unix(0, c14Started.Load()))
	c14Started.Store(0)
	if used := cpuSeconds() - cpu0; (len(input) <= 1024 && used > 4) || (len(input) <= 4096 && used > 12) {
		c.note("near the limit: %.1f s of CPU time for %d bytes: %s %q", used, len(input), kind, input)
		c.count("inputs_that_used_more_than_a_tenth_of_their_cpu_limit", 1)
	}
	if el > 5*time.Second {
		c.note("slow (%v) %s %q", el, kind, input)
		c.count("inputs_slower_than_5s", 1)
	}
	if pv != nil {
		c.violate(violation{Case: kind, Input: input, Observed: fmt.Sprintf("panic: %v | %s", pv, firstLines(stack, 14)), Expected: "a result or an error value"})
		return
	}
	if err == nil && resNil {
		c.violate(violation{Case: kind, Input: input, Observed: "returned success with a nil result", Expected: "a result or an error"})
		return
	}
	if err != nil {
		c.count(kind+"_errors", 1)
		if err.Error() == "" {
			c.violate(violation{Case: kind, Input: input, Observed: "error with an empty message", Expected: "an error describing the problem"})
		}
	} else {
		c.count(kind+"_results", 1)
	}
}

func c14Spec(c *ctx, text string) {
	if rd := refScan(text); len(rd.Toks) >= 1 {
		c.nontrivial(text)
	}
	c14Run(c, "spec.Parse", text, func() (bool, error) {
		s, err := spec.Parse(fileName, strings.NewReader(text))
		if err != nil {
			return s == nil, err
		}
		if s == nil {
			return true, nil
		}
		// the later stages of the tool on an accepted specification
		d, tm, derr := s.DFA()
		if derr == nil && (d == nil || tm == nil) {
			return true, nil
		}
		// the table builder is slow on large grammars (7 s for 35 productions): only small ones go through it here
		np := 0
		for range s.Grammar.Productions.All() {
			np++
		}
		if np <= 24 {
			T, terr := s.LALRParsingTable()
			if terr == nil && T == nil {
				return true, nil
			}
			// the generator itself, for a share of the accepted small specifications and for every named odd shape
			if derr == nil && terr == nil && (c14GenerateAll || c.res.Evaluations%2 == 0) {
				dir, merr := os.MkdirTemp("", "verif-c14gen-")
				if merr == nil {
					defer os.RemoveAll(dir)
					c.count("accepted_specifications_driven_through_the_generator", 1)
					if gerr := golang.Generate(ui.NewNop(), &golang.Params{Path: dir, Spec: s}); gerr != nil {
						return false, gerr
					}
				}
			}
		}
		return false, nil
	})
	c14Run(c, "ebnf-ast.Parse", text, func() (bool, error) {
		g, err := east.Parse(fileName, strings.NewReader(text))
		return g == nil, err
	})
}

var reCount = regexp.MustCompile(`\{(\d+)(?:,(\d*))?\}`)

// c14CountSig: input-side signature of open finding D28 - the pattern has a repetition count that an int can hold but
// whose automaton (the operand copied that many times) cannot be held in memory: >= 2^24 here.
func c14CountSig(p string) string {
	for _, m := range reCount.FindAllStringSubmatch(p, -1) {
		for _, d := range m[1:] {
			if len(d) > 19 {
				continue // does not fit an int: must be rejected, not part of the finding
			}
			if v, err := strconv.ParseUint(d, 10, 64); err == nil && v >= 1<<24 && v <= 1<<63-1 {
				return "repetition-count-needs-more-memory-than-there-is"
			}
		}
	}
	return ""
}

// c14GenerateAll makes c14Spec drive every accepted specification through the generator (set by the named families).
var c14GenerateAll bool

// c14OddShapes: small valid specifications of unusual shape (no terminal at all, only empty rules, one symbol of
// every kind, a token that is declared and never used, names at the edge of what an identifier may be ...).
var c14OddShapes = []string{
	"grammar e; start = ;",
	"grammar e; start = | ;",
	"grammar e; start = head tail; head = ; tail = ;",
	"grammar e; start = [a]; a = ;",
	"grammar e; start = {a}; a = \"x\";",
	"grammar e; start = a; a = b; b = c; c = ;",
	"grammar e; UNUSED = \"u\"; start = ;",
	"grammar e; UNUSED = /u+/; start = \"a\";",
	"grammar e; WS = $WS; start = ;",
	"grammar e; @left \"+\"; start = ;",
	"grammar e; @left <start = >; start = ;",
	"grammar e; start = \"\\\"\";",
	"grammar e; start = \" \";",
	"grammar e; A = /a?/; start = A;",
	"grammar e; A = /a*/; B = /b*/; start = A B;",
	"grammar e; start = \"a\" | ;",
	"grammar e; start = s_; s_ = \"a\";",
	"grammar e; start = a1_b2__; a1_b2__ = \"a\";",
	"grammar e9_; T_1 = \"t\"; start = T_1;",
}

// c14HashFlood builds specifications whose symbol names are chosen, with the symbol tables' own hash functions, so
// that they fill exactly the slots one further name can probe (quadratic probing over a prime number of slots M reaches
// only (M+1)/2 of them): the classic hostile input against an open-addressing table.
func c14HashFlood() []string {
	var out []string
	probeSet := func(h uint64, M int) map[int]bool {
		S := map[int]bool{}
		h1 := int(h % uint64(M))
		for i := 0; i < M; i++ {
			S[(h1+i*i)%M] = true
		}
		return S
	}
	mix := func(h uint64) uint64 { return h ^ (h >> 20) ^ (h >> 12) ^ (h >> 7) ^ (h >> 4) }
	for _, M := range []int{89, 179} {
		for _, kind := range []string{"nonterminal", "token", "literal"} {
			for _, victim := range []string{"victim", "zz"} {
				hashOf := func(n string) uint64 {
					switch kind {
					case "nonterminal":
						return mix(grammar.HashNonTerminal(grammar.NonTerminal(n)))
					}
					return mix(grammar.HashTerminal(grammar.Terminal(n)))
				}
				spell := func(n string) string {
					switch kind {
					case "token":
						return strings.ToUpper(n)
					}
					return n
				}
				S := probeSet(hashOf(spell(victim)), M)
				filled := map[int]bool{}
				put := func(n string) {
					h1 := int(hashOf(n) % uint64(M))
					for i := 0; i < 4*M; i++ {
						if sl := (h1 + i*i) % M; !filled[sl] {
							filled[sl] = true
							return
						}
					}
				}
				var names []string
				if kind == "nonterminal" {
					put("start")
				}
				next := 0
				pickName := func(inS bool) string {
					for {
						next++
						n := spell(fmt.Sprintf("n%d", next))
						sl := int(hashOf(n) % uint64(M))
						if !filled[sl] && S[sl] == inS {
							return n
						}
					}
				}
				for i := 0; i < 6; i++ {
					n := pickName(false)
					put(n)
					names = append(names, n)
				}
				for {
					missing := 0
					for sl := range S {
						if !filled[sl] {
							missing++
						}
					}
					if missing == 0 {
						break
					}
					n := pickName(true)
					put(n)
					names = append(names, n)
				}
				names = append(names, spell(victim))
				var b strings.Builder
				b.WriteString("grammar flood;\n")
				switch kind {
				case "nonterminal":
					b.WriteString("start = " + strings.Join(names, " ") + ";\n")
					for _, n := range names {
						fmt.Fprintf(&b, "%s = \"a\";\n", n)
					}
				case "token":
					for i, n := range names {
						fmt.Fprintf(&b, "%s = \"t%d\";\n", n, i)
					}
					b.WriteString("start = " + strings.Join(names, " ") + ";\n")
				case "literal":
					b.WriteString("start =")
					for _, n := range names {
						fmt.Fprintf(&b, " %q", n)
					}
					b.WriteString(";\n")
				}
				out = append(out, b.String())
			}
		}
	}
	return out
}

func c14Pattern(c *ctx, p string) {
	if len([]rune(p)) >= 2 {
		c.nontrivial("pat:" + p)
	}
	c14Run(c, "nfa.Parse", p, func() (bool, error) {
		n, err := nfa.Parse(p)
		if err != nil {
			return n == nil, err
		}
		if n == nil {
			return true, nil
		}
		var d *auto.DFA = n.ToDFA()
		return d == nil, nil
	})
	c14Run(c, "regex-ast.Parse", p, func() (bool, error) {
		a, err := rast.Parse(p)
		if err != nil {
			return a == nil, err
		}
		if a == nil {
			return true, nil
		}
		return a.ToDFA() == nil, nil
	})
	c14Run(c, "Spec.DFA", p, func() (bool, error) {
		d, _, err := specDFA(p)
		return d == nil, err
	})
}

func fixtures() []string {
	var out []string
	ms, _ := filepath.Glob(filepath.Join(repoDir(), "internal/ebnf/fixture/*.grammar"))
	for _, m := range ms {
		if b, err := os.ReadFile(m); err == nil {
			out = append(out, string(b))
		}
	}
	return out
}

func runC14(c *ctx) {
	c14Watchdog(c)
	r := c.rng("texts")
	// --- every prefix of fixtures and generated specifications
	var bases []string
	for _, f := range fixtures() {
		bases = append(bases, f)
	}
	c.count("fixtures_found", int64(len(bases))/int64(c.of)+0)
	for i := 0; i < c.n(6, 50); i++ {
		g := genWellFormedSpec(r, wfOpts{nNT: 1 + r.intn(3), nTok: r.intn(4), nStr: 2 + r.intn(4), nExtraRules: r.intn(3), nDirectives: r.intn(3), depth: 1 + r.intn(3), ruleHandles: true})
		bases = append(bases, layoutTokens(specTokens(g, nil), r, layout{seps: sepVaried, comments: true, finalNL: true}))
	}
	for bi, b := range bases {
		step := 1
		if c.quick() && len(b) > 600 {
			step = 1 + len(b)/600
		}
		for cut := 0; cut <= len(b); cut += step {
			if c.mine() {
				c14Spec(c, b[:cut])
			}
		}
		_ = bi
	}
	// --- byte-level mutations
	nMut := c.n(4000, 120000)
	for i := 0; i < nMut; i++ {
		b := []byte(bases[r.intn(len(bases))])
		if len(b) > 1500 {
			st := r.intn(len(b) - 1500)
			b = append([]byte("grammar g;\n"), b[st:st+1500]...)
		}
		for k := 1 + r.intn(4); k > 0 && len(b) > 0; k-- {
			pos := r.intn(len(b))
			switch r.intn(5) {
			case 0:
				b[pos] = byte(r.intn(256))
			case 1:
				b = append(b[:pos], b[pos+1:]...)
			case 2:
				b = append(b[:pos], append([]byte{pick(r, []byte("\"/\\*@$|(){}[]<>;= \n\x00\xff\xc3"))}, b[pos:]...)...)
			case 3:
				end := pos + r.intn(20)
				if end > len(b) {
					end = len(b)
				}
				b = append(b[:pos], b[end:]...)
			default:
				b = append(b[:pos], append([]byte(pick(r, []string{"/*", "*/", "//", "\\\"", "{{", "}}", "grammar", "@left", "$X", "\"", "'"})), b[pos:]...)...)
			}
		}
		if c.mine() {
			c14Spec(c, string(b))
		}
	}
	// --- random bytes
	for i := 0; i < c.n(2000, 60000); i++ {
		n := r.intn(80)
		b := make([]byte, n)
		for k := range b {
			switch r.intn(4) {
			case 0:
				b[k] = byte(r.intn(256))
			default:
				b[k] = pick(r, []byte("grammar start=;|()[]{}<>\"/ \n\tAaZz09_$@\\*"))
			}
		}
		if c.mine() {
			c14Spec(c, string(b))
			if i%4 == 0 {
				c14Spec(c, "grammar g;"+string(b))
			}
		}
	}
	// --- token soup
	soupToks := []string{"=", ";", "|", "(", ")", "[", "]", "{", "}", "{{", "}}", "<", ">", "grammar", "@left", "@right", "@none", "x", "start", "TK", "ID", "\"a\"", "\"+\"", "/a+/", "/[/", "$ID", "$NOPE"}
	for i := 0; i < c.n(6000, 200000); i++ {
		var sb strings.Builder
		if r.chance(3, 4) {
			sb.WriteString("grammar g ")
		}
		for k := r.intn(14); k > 0; k-- {
			sb.WriteString(pick(r, soupToks))
			sb.WriteString(" ")
		}
		if c.mine() {
			c14Spec(c, sb.String())
		}
	}
	// --- syntactically valid but ill-formed specifications (every diagnostic path of the well-formedness checks)
	{
		br := c.rng("illformed")
		var wfb []*rgrammar
		for i := 0; i < c.n(12, 40); i++ {
			wfb = append(wfb, genWellFormedSpec(br, wfOpts{nNT: 1 + br.intn(3), nTok: 1 + br.intn(3), nStr: 2 + br.intn(4), nExtraRules: br.intn(3), nDirectives: br.intn(3), depth: 1 + br.intn(3), ruleHandles: br.chance(1, 2)}))
		}
		for bi, base := range wfb {
			for a := 0; a < len(injectors); a++ {
				for b := a; b < len(injectors); b++ {
					for variant := 0; variant < 3; variant++ {
						rr := newRng(c.seed, fmt.Sprintf("C14/ill/%d/%d/%d/%d", bi, a, b, variant))
						g := cloneGrammar(base)
						injectors[a].f(rr, g, variant)
						if b != a {
							injectors[b].f(rr, g, variant+1)
						}
						if c.mine() {
							c14Spec(c, layoutTokens(specTokens(g, nil), rr, layout{seps: sepVaried, finalNL: true}))
							c.count("ill_formed_specifications", 1)
						}
					}
				}
			}
		}
	}
	// --- odd shapes and hash-flooding names, each through every stage including the generator
	c14GenerateAll = true
	for i, t := range append(append([]string{}, c14OddShapes...), c14HashFlood()...) {
		if c.mineIdx(i) {
			c14Spec(c, t)
			c.count("odd_shapes_and_hash_flooding_specifications", 1)
		}
	}
	c14GenerateAll = false
	// --- deep / long
	idx := 0
	for _, d := range []int{500, 1100, 2500} {
		for _, t := range []string{
			"grammar g; start = " + strings.Repeat("( ", d) + "x" + strings.Repeat(" )", d) + ";",
			"grammar g; start = " + strings.Repeat("( ", d),
			"grammar g; start = " + strings.Repeat("\"a\" | ", d) + "\"b\";",
			"grammar g; " + strings.Repeat("// c\n", d) + "start = \"a\";",
			"grammar g; start = " + strings.Repeat("x ", d) + ";",
		} {
			if c.mineIdx(idx) {
				c14Spec(c, t)
				c.count("deep_or_long_texts", 1)
			}
			idx++
		}
	}
	// --- millions of consecutive skipped tokens (stack growth of a recursive scanner)
	for i, t := range []string{
		"grammar g ; " + strings.Repeat(" \n", 3000000) + " start = \"a\" ;\n",
		"grammar g ; " + strings.Repeat("//\n", 1500000) + " start = \"a\" ;\n",
		"grammar g ; start = \"a\" ;" + strings.Repeat("/**/ ", 1200000),
	} {
		if c.mineIdx(idx + i) {
			c14Run(c, "ebnf-ast.Parse(huge)", fmt.Sprintf("%d bytes: %q ...", len(t), t[:40]), func() (bool, error) {
				g, err := east.Parse(fileName, strings.NewReader(t))
				return g == nil, err
			})
			c.count("huge_texts", 1)
		}
	}
	// --- patterns
	alpha := []rune(`\|.?*+()[]{}$a0Ax-,:^ps1`)
	maxLen := c.n(3, 4)
	for n := 0; n <= maxLen; n++ {
		ix := make([]int, n)
		buf := make([]rune, n)
		for {
			for i, k := range ix {
				buf[i] = alpha[k]
			}
			if c.mine() {
				c14Pattern(c, string(buf))
			}
			i := n - 1
			for ; i >= 0; i-- {
				ix[i]++
				if ix[i] < len(alpha) {
					break
				}
				ix[i] = 0
			}
			if i < 0 {
				break
			}
		}
	}
	c.exhaustive(fmt.Sprintf("all_patterns_len_le_%d_over_24_symbols", maxLen), true)
	special := []string{`[\x80000000-\x7F]`, `[\x9ABCDEF0-z]`, `[\x7F-\x80000000]`, `[a-\xFFFFFFFF]`, `[\xFFFFFFFF-a]`, `[\x80000000-\xFFFFFFFF]`, `\x80000000+`, `[^\x80000000-\x7F]`, `[\x7FFFFFFF-\x80]`, `[\x00110000-\x41]`, `[\x0-\x7F]`,
		"", `[\x0100]`, `[^\x0100]`, `[\x80]`, `[\x0080]`, `[^\x80]`, `[\x7E-\x82]`, `[\x00-\xFF]`, `[\p{Latin}]`, `[^\p{Greek}a]`, `\p{Emoji}`, `\P{Lu}`, `[\P{L}]`, `\xFFFFFFFF`, `[\xFFFFFFFF]`, `\x0010FFFF`, `\x00110000`,
		`[\x7FFFFFFF-\xFFFFFFFF]`, `\x80`, `\xFF+`, `é`, `[é]`, "a\x00b", "\xff", "[\xc3]", `a{64}`, `[0-9a-f]{64}`, `a{100}`, `(ab){40}`, `(a|b){65}`, `a{0}`, `(a{0}){0}`, `(((((a)))))`, `a{1,0}`, `a{00}`, `a{,3}`, `[]`, `[^]`, `[a-]`, `[-a]`, `()`, `(|)`, `a||b`, `^`, `$`, `^$`, `^^a`, `a$$`, `\`, `\x`, `\x4`, `\xG0`, `\p`, `\p{`, `\p{Foo}`, `[:alpha:`, `[[:alpha:]]`, `[[:nope:]]`,
		strings.Repeat("(", 3000) + "a" + strings.Repeat(")", 3000), strings.Repeat("a|", 1200) + "a", strings.Repeat("a?", 60), strings.Repeat("[a-z]", 70)}
	for i, p := range special {
		if c.mineIdx(i) {
			c14Pattern(c, p)
		}
	}
	pr := c.rng("patterns")
	for i := 0; i < c.n(3000, 80000); i++ {
		n := 4 + pr.intn(10)
		buf := make([]rune, n)
		for k := range buf {
			if pr.chance(1, 12) {
				buf[k] = pick(pr, []rune{0xE9, 0x100, 0x1F600, 0x80, 0x7F, 0, 9})
			} else {
				buf[k] = pick(pr, alpha)
			}
		}
		if c.mine() {
			c14Pattern(c, string(buf))
		}
	}
	for i, t := range randomPatterns(pr, c.n(1000, 20000)) {
		_ = i
		if c.mine() {
			c14Pattern(c, t.print())
		}
	}
	// --- repetition counts: beyond what an int can hold, and beyond what memory can hold (child process, capped memory)
	if c.shard == 1%c.of {
		for _, p := range []string{"a{1,200}", "[a-c]{300}x", "a{9223372036854775808}", "a{1,9223372036854775808}", "a{18446744073709551617,}", "(ab){99999999999999999999999}",
			"a{4294967297}", "(ab){1,268435456}", "a{0,}{4294967296}"} {
			c.eval()
			c.guard("pattern-probe " + p)
			st, _, out := patProbe(p)
			c.count("memory_capped_pattern_probes_"+st, 1)
			switch st {
			case "oom", "crash":
				c.violate(violation{Sig: c14CountSig(p), Case: "pattern-probe", Input: p, Observed: "the process died (" + st + "): " + out, Expected: "a result or an error value"})
			case "timeout":
				c.inconclusive("pattern probe timed out")
			}
		}
	}
	// --- CLI
	if c.shard == 0 {
		c14CLI(c)
	}
	c.sample(map[string]any{"entry_points": []string{"spec.Parse+DFA+LALRParsingTable", "ebnf ast.Parse", "nfa.Parse+ToDFA", "regex ast.Parse+ToDFA", "Spec.DFA", "emerge CLI"}, "example_inputs": []string{"grammar g; start = ( ( (", `[\x0100]`, "emerge -bogus x"}})
}

func c14CLI(c *ctx) {
	bin := filepath.Join(verifDir, "bin", "emerge")
	dir, err := os.MkdirTemp("", "verif-c14-")
	if err != nil {
		return
	}
	defer os.RemoveAll(dir)
	write := func(name, content string) string {
		p := filepath.Join(dir, name)
		_ = os.WriteFile(p, []byte(content), 0o644)
		return p
	}
	valid := write("valid.ebnf", "grammar okpkg;\nNUM = /[0-9]+/\nstart = NUM {\"+\" NUM};\n")
	empty := write("empty.ebnf", "")
	garbage := write("garbage.ebnf", "\x00\xff\xfe grammar ((((")
	syntax := write("syntax.ebnf", "grammar g; start = ( ;\n")
	lexical := write("lexical.ebnf", "grammar g; start = # ;\n")
	illformed := write("ill.ebnf", "grammar g; start = UNDEF;\n")
	conflict := write("conflict.ebnf", "grammar g; start = e; e = e \"+\" e | \"n\";\n")
	overlap := write("overlap.ebnf", "grammar g; AA = /a+/ BB = /a*/ start = AA BB;\n")
	degenerate := write("degenerate.ebnf", "grammar g; start = \"z\" | (\"z\" | start) | ;\n")
	big := write("big.ebnf", "grammar g; HH = /[0-9a-f]{64}/; start = HH;\n")
	noperm := write("noperm.ebnf", "grammar g; start = \"a\";\n")
	_ = os.Chmod(noperm, 0)
	outFile := write("outfile", "x")
	type tc struct {
		args    []string
		wantErr bool // must exit non-zero with a message
		any     bool // either outcome is fine (only the no-stack-trace clause applies)
	}
	var cases []tc
	add := func(wantErr, any bool, args ...string) { cases = append(cases, tc{args, wantErr, any}) }
	// every flag combination on specifications with a pattern token that string literals shadow completely, with a token
	// that is never used, and with no token at all
	shadowed := write("shadowed.ebnf", "grammar shadowed;\nBOOL = /true|false/\nstart = BOOL | \"true\" | \"false\";\n")
	unused := write("unused.ebnf", "grammar unusedtok;\nNEVER = /n+/\nstart = \"a\";\n")
	noterm := write("noterm.ebnf", "grammar noterm;\nstart = ;\n")
	for fi, fs := range [][]string{{}, {"-debug"}, {"-verbose"}, {"-debug", "-verbose"}} {
		for si, sp := range []string{shadowed, unused, noterm, valid} {
			args := append(append([]string{}, fs...), "-out", dir, "-name", fmt.Sprintf("fl%d_%d", fi, si), sp)
			add(false, true, args...)
		}
	}
	for _, f := range []string{empty, garbage, syntax, lexical, illformed, conflict, overlap, degenerate, big, filepath.Join(dir, "missing.ebnf"), dir} {
		add(true, false, "-out", dir, f)
		add(true, false, "-out", dir, "-name", "pkgx", f)
		add(true, false, "-verbose", "-debug", "-out", dir, f)
	}
	add(true, os.Geteuid() == 0, "-out", dir, noperm) // root can read it anyway
	add(true, false)
	add(true, false, "-out", dir)
	add(true, false, "-out")
	add(true, false, "-name")
	add(true, false, "-bogus", valid)
	add(true, false, "--bogus", valid)
	add(true, false, "-debug=maybe", valid)
	add(true, false, "-verbose=2", valid)
	add(true, false, "-out", filepath.Join(dir, "nonexistent-dir"), valid)
	add(true, false, "-out", outFile, valid)
	add(true, false, "-out", dir, "-name", "9bad", valid)
	add(true, false, "-out", dir, "-name", "func", valid)
	add(true, false, "-out", dir, "-name", "_", valid)
	add(true, false, "-out", dir, "-name", "a-b", valid)
	add(true, false, "-out", dir, "-name", "", syntax)
	// output locations of every awkward kind (stat fails with ENOTDIR / ENAMETOOLONG / ELOOP, odd spellings, a lone tilde)
	loopA, loopB := filepath.Join(dir, "loop-a"), filepath.Join(dir, "loop-b")
	_ = os.Symlink(loopB, loopA)
	_ = os.Symlink(loopA, loopB)
	for _, o := range []string{filepath.Join(outFile, "gen"), filepath.Join(dir, strings.Repeat("n", 300)), filepath.Join(dir, strings.Repeat("d/", 2100)), loopA, filepath.Join(loopA, "x"),
		"~", "~/", "~nobody", "~/x", "", ".", "/dev/null", "/dev/null/x", "/proc/self/mem", "a\x00b", " ", "-", "--", "\n", "/nonexistent/\xff"} {
		add(false, true, "-out", o, valid)
		add(false, true, "-out="+o, "-name", "okpkg9", valid)
		add(false, true, "-debug", "-out", o, syntax)
	}
	for _, nm := range []string{"~", ".", "..", "/", "a/b", strings.Repeat("n", 300), "a\x00b", " ", "-", "\xff", "é", "a b"} {
		add(false, true, "-out", dir, "-name", nm, valid)
		add(false, true, "-out", dir, "-name="+nm, valid)
	}
	add(false, true, "-h")
	add(false, true, "-help")
	add(false, true, "--help")
	add(false, true, "-version")
	add(false, true, "-help", "-version")
	add(false, true, "-help", filepath.Join(dir, "missing.ebnf"))
	add(false, true, "-out", dir, "-name", "two", valid, syntax)
	add(false, true, "-out", dir, valid, "-name", "late")
	add(false, true, "-out", dir, "--", valid)
	add(false, true, "-out", dir, "-", valid)
	add(true, false, "-out", dir, "-")
	add(true, false, "--")
	add(true, false, "-out="+dir, "-name=okpkg2", syntax)
	add(false, true, "-out="+dir, "-name=okpkg3", valid)
	add(false, true, "-out", dir, "-name", "okpkg3", valid) // second run into an existing package directory
	add(true, false, "-out", dir, "-name", "okpkg3", valid)
	for i, tcse := range cases {
		c.eval()
		cmd := exec.Command(bin, tcse.args...)
		cmd.Dir = dir
		cmd.Env = append(os.Environ(), "HOME="+dir)
		var out bytes.Buffer
		cmd.Stdout, cmd.Stderr = &out, &out
		done := make(chan error, 1)
		go func() { done <- cmd.Run() }()
		var runErr error
		select {
		case runErr = <-done:
		case <-time.After(120 * time.Second):
			_ = cmd.Process.Kill()
			c.violate(violation{Case: fmt.Sprintf("cli%d", i), Input: tcse.args, Observed: "did not finish within 120 s", Expected: "terminates"})
			continue
		}
		c.count("cli_runs", 1)
		c.nontrivial(fmt.Sprint(tcse.args))
		text := out.String()
		exit := 0
		if ee, ok := runErr.(*exec.ExitError); ok {
			exit = ee.ExitCode()
		} else if runErr != nil {
			exit = -1
		}
		for _, marker := range []string{"goroutine ", "panic:", "runtime error", "SIGSEGV"} {
			if strings.Contains(text, marker) {
				c.violate(violation{Case: fmt.Sprintf("cli%d", i), Input: tcse.args, Observed: fmt.Sprintf("exit %d, output contains %q: %s", exit, marker, firstLines(text, 10)), Expected: "a message and a non-zero exit status, never a Go stack trace"})
				break
			}
		}
		if tcse.any {
			continue
		}
		if tcse.wantErr {
			if exit == 0 {
				c.violate(violation{Case: fmt.Sprintf("cli%d", i), Input: tcse.args, Observed: "exit status 0: " + firstLines(text, 6), Expected: "non-zero exit status and a message"})
			} else if strings.TrimSpace(stripANSI(text)) == "" {
				c.violate(violation{Case: fmt.Sprintf("cli%d", i), Input: tcse.args, Observed: fmt.Sprintf("exit status %d without any message", exit), Expected: "a message"})
			}
		}
	}
	_ = os.Chmod(noperm, 0o644)
}

func stripANSI(s string) string {
	var b strings.Builder
	for i := 0; i < len(s); i++ {
		if s[i] == 0x1b && i+1 < len(s) && s[i+1] == '[' {
			j := i + 2
			for j < len(s) && !((s[j] >= 'A' && s[j] <= 'Z') || (s[j] >= 'a' && s[j] <= 'z')) {
				j++
			}
			i = j
			continue
		}
		b.WriteByte(s[i])
	}
	return b.String()
}

func init() {
	// vh aux c14one <file>: time spec.Parse alone on one text (used to confirm a suspected hang outside the batch).
	auxCommands["c14one"] = func(args []string) int {
		b, err := os.ReadFile(args[0])
		if err != nil {
			fmt.Println(err)
			return 2
		}
		t0 := time.Now()
		_, perr := spec.Parse(fileName, bytes.NewReader(b))
		fmt.Printf("spec.Parse: %v err=%v\n", time.Since(t0), perr != nil)
		return 0
	}
}

func init() {
	// vh aux c14pat <pattern>: both pattern front ends on one pattern, with timing (run under ulimit -v).
	auxCommands["c14pat"] = func(args []string) int {
		t0 := time.Now()
		n, err := nfa.Parse(args[0])
		fmt.Printf("nfa.Parse: %v err=%v nil=%v\n", time.Since(t0), err, n == nil)
		t0 = time.Now()
		a, err := rast.Parse(args[0])
		fmt.Printf("ast.Parse: %v err=%v nil=%v\n", time.Since(t0), err, a == nil)
		return 0
	}
}

// ---------------------------------------------------------------- pattern probe in a memory-capped child process

// patProbe runs both pattern front ends on one pattern in a child process whose address space is capped (1.5 GB), so
// that a pattern whose automaton cannot be held cannot take the machine down. status: "rejected" | "accepted" |
// "oom" (the runtime's 'fatal error: out of memory') | "crash" | "timeout". For "accepted", bits[k] tells whether the
// automaton accepts a^k (k = 0..69).
func patProbe(pattern string) (status, bits, output string) {
	self, _ := os.Executable()
	cmd := exec.Command("sh", "-c", "ulimit -v 1500000; exec \"$0\" aux patprobe \"$1\"", self, pattern)
	var ob bytes.Buffer
	cmd.Stdout, cmd.Stderr = &ob, &ob
	done := make(chan error, 1)
	if err := cmd.Start(); err != nil {
		return "crash", "", err.Error()
	}
	go func() { done <- cmd.Wait() }()
	select {
	case <-done:
	case <-time.After(120 * time.Second):
		_ = cmd.Process.Kill()
		<-done
		return "timeout", "", firstLines(ob.String(), 6)
	}
	out := ob.String()
	switch {
	case strings.Contains(out, "out of memory"):
		return "oom", "", firstLines(out, 4)
	case strings.Contains(out, "PROBE rejected"):
		return "rejected", "", firstLines(out, 3)
	case strings.Contains(out, "PROBE accepted "):
		i := strings.Index(out, "PROBE accepted ")
		return "accepted", strings.TrimSpace(out[i+len("PROBE accepted "):]), ""
	}
	return "crash", "", firstLines(out, 12)
}

func init() {
	auxCommands["patprobe"] = func(args []string) int {
		n, err := nfa.Parse(args[0])
		_, err2 := rast.Parse(args[0])
		if err != nil || err2 != nil {
			fmt.Printf("PROBE rejected nfa=%v ast=%v\n", err, err2)
			return 0
		}
		e := fromAutoDFA(n.ToDFA())
		var b strings.Builder
		for k := 0; k < 70; k++ {
			if e.matches(strings.Repeat("a", k)) {
				b.WriteByte('1')
			} else {
				b.WriteByte('0')
			}
		}
		fmt.Println("PROBE accepted " + b.String())
		return 0
	}
}

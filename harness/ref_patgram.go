package main

// Recogniser for the character-level pattern grammar of docs/5-definitions.md (reference for C09).
// A memoised "does non-terminal X derive s[i:j]" evaluator: the transcription below has no left recursion and no
// nullable non-terminal, so plain memoised recursion is a complete decision procedure for the CFG (all parses
// are considered, not only the first one a greedy reader would take).

import "strings"

type cgSym struct {
	nt   string
	lit  string
	pred func(rune) bool
}

func nt(s string) cgSym           { return cgSym{nt: s} }
func tl(s string) cgSym           { return cgSym{lit: s} }
func tp(f func(rune) bool) cgSym  { return cgSym{pred: f} }
func seq(xs ...cgSym) []cgSym     { return xs }
func isDigitR(r rune) bool        { return r >= '0' && r <= '9' }
func isEscapable(r rune) bool     { return strings.ContainsRune(reMetaChars, r) }
func isAnyChar(r rune) bool       { return true } // "char = # all characters"
func isUnescapedChar(r rune) bool { return !isEscapable(r) }

var patGrammar = map[string][][]cgSym{}

func init() {
	g := patGrammar
	add := func(h string, bodies ...[]cgSym) { g[h] = append(g[h], bodies...) }
	add("regex", seq(nt("expr")), seq(tl("^"), nt("expr")))
	add("expr", seq(nt("subexpr")), seq(nt("subexpr"), tl("|"), nt("expr")))
	add("subexpr", seq(nt("item")), seq(nt("item"), nt("subexpr")))
	add("item", seq(tl("$")), seq(nt("group")), seq(nt("match")))
	add("group", seq(tl("("), nt("expr"), tl(")")), seq(tl("("), nt("expr"), tl(")"), nt("quantifier")))
	add("match", seq(nt("match_item")), seq(nt("match_item"), nt("quantifier")))
	add("match_item", seq(tl(".")), seq(nt("single_char")), seq(nt("char_class")), seq(nt("ascii_char_class")), seq(nt("unicode_char_class")), seq(nt("char_group")))
	add("char_group", seq(tl("["), nt("gitems"), tl("]")), seq(tl("[^"), nt("gitems"), tl("]")))
	add("gitems", seq(nt("gitem")), seq(nt("gitem"), nt("gitems")))
	add("gitem", seq(nt("unicode_char_class")), seq(nt("ascii_char_class")), seq(nt("char_class")), seq(nt("char_range")), seq(nt("single_char")))
	add("char_range", seq(nt("cir"), tl("-"), nt("cir")))
	add("cir", seq(nt("unicode_char")), seq(nt("ascii_char")), seq(tp(isAnyChar)))
	add("quantifier", seq(nt("repetition")), seq(nt("repetition"), tl("?")))
	add("repetition", seq(tl("?")), seq(tl("*")), seq(tl("+")), seq(nt("range")))
	add("range", seq(tl("{"), nt("num"), tl("}")), seq(tl("{"), nt("num"), tl(","), tl("}")), seq(tl("{"), nt("num"), tl(","), nt("num"), tl("}")))
	add("num", seq(tp(isDigitR)), seq(tp(isDigitR), nt("num")))
	add("single_char", seq(nt("unicode_char")), seq(nt("ascii_char")), seq(nt("escaped_char")), seq(tp(isUnescapedChar)))
	for _, c := range classNames {
		add("char_class", seq(tl(c)))
	}
	for _, c := range posixNames {
		add("ascii_char_class", seq(tl(c)))
	}
	cats := []string{"Math", "Emoji", "Latin", "Greek", "Cyrillic", "Han", "Persian", "Letter", "Lu", "Ll", "Lt", "Lm", "Lo", "L",
		"Mark", "Mn", "Mc", "Me", "M", "Number", "Nd", "Nl", "No", "N", "Punctuation", "Pc", "Pd", "Ps", "Pe", "Pi", "Pf", "Po", "P",
		"Separator", "Zs", "Zl", "Zp", "Z", "Symbol", "Sm", "Sc", "Sk", "So", "S"}
	for _, c := range cats {
		add("unicode_char_class", seq(tl(`\p{`+c+`}`)), seq(tl(`\P{`+c+`}`)))
	}
	h := tp(isHexU)
	add("ascii_char", seq(tl(`\x`), h, h))
	add("unicode_char", seq(tl(`\x`), h, h, h, h), seq(tl(`\x`), h, h, h, h, h), seq(tl(`\x`), h, h, h, h, h, h), seq(tl(`\x`), h, h, h, h, h, h, h), seq(tl(`\x`), h, h, h, h, h, h, h, h))
	add("escaped_char", seq(tl(`\`), tp(isEscapable)))
}

type patRecog struct {
	rs   []rune
	memo map[[3]int]int8 // (nt id, i, j) -> 0 unknown, 1 yes, 2 no
	ids  map[string]int
}

var patNTIDs = func() map[string]int {
	m := map[string]int{}
	return m
}()

func (p *patRecog) id(name string) int {
	if v, ok := p.ids[name]; ok {
		return v
	}
	v := len(p.ids)
	p.ids[name] = v
	return v
}

func (p *patRecog) derives(name string, i, j int) bool {
	if i >= j {
		return false // no nullable non-terminals
	}
	k := [3]int{p.id(name), i, j}
	if v := p.memo[k]; v != 0 {
		return v == 1
	}
	p.memo[k] = 2
	for _, body := range patGrammar[name] {
		if p.matchSeq(body, 0, i, j) {
			p.memo[k] = 1
			return true
		}
	}
	return false
}

func (p *patRecog) matchSeq(body []cgSym, k, i, j int) bool {
	if k == len(body) {
		return i == j
	}
	s := body[k]
	switch {
	case s.lit != "":
		n := 0
		for _, r := range s.lit {
			if i+n >= j || p.rs[i+n] != r {
				return false
			}
			n++
		}
		return p.matchSeq(body, k+1, i+n, j)
	case s.pred != nil:
		if i >= j || !s.pred(p.rs[i]) {
			return false
		}
		return p.matchSeq(body, k+1, i+1, j)
	default:
		last := k == len(body)-1
		if last {
			return p.derives(s.nt, i, j)
		}
		for m := i + 1; m <= j; m++ {
			if p.derives(s.nt, i, m) && p.matchSeq(body, k+1, m, j) {
				return true
			}
		}
		return false
	}
}

// isPatternSentence decides whether the whole text is a sentence of the documented pattern grammar.
func isPatternSentence(s string) bool {
	p := &patRecog{rs: []rune(s), memo: map[[3]int]int8{}, ids: map[string]int{}}
	return p.derives("regex", 0, len(p.rs))
}

package main

// C18 - parse callbacks fire in derivation order with the right values; a callback error aborts the parse.

import (
	"errors"
	"fmt"
	"strings"

	"github.com/moorara/algo/lexer"
	aparser "github.com/moorara/algo/parser"
	"github.com/moorara/algo/parser/lr"

	eparser "github.com/gardenbed/emerge/internal/ebnf/parser"
)

func init() {
	register(&property{
		id:    "C18",
		level: "exploration",
		rule: "seeded syntactically valid specifications (every declaration kind, nesting to depth 4, empty rules, optional semicolons present/absent, comments and varied separators) are parsed by the REAL lexer+parser through Parse(tokenF, prodF) and ParseAndEvaluate(eval); the recorded callback log (kind, token lexeme+position | production index, argument values and positions) must equal the post-order of the reference reader's tree; " +
			"the evaluation is repeated with callbacks that return (nil, nil) for half / the other half / all of the reductions (the head's value must then be nil, the positions unchanged); then for EVERY step n of the log a second run whose n-th callback returns a sentinel error must log nothing after step n and return an error satisfying errors.Is(err, sentinel). non-trivial = log has >= 10 events and >= 1 epsilon reduction; distinct by text.",
		assumptions: []string{"reference derivation = greedy recursive-descent reading of the documented grammar (R1), cross-validated against the tables by C04", "texts are valid specifications (syntactically); invalid ones are C20's"},
		floorQuick:  3000, floorThorough: 50000,
		run: runC18,
	})
}

type cbEvent struct {
	Tok    bool
	Lexeme string
	Kind   string
	Off    int
	Line   int
	Col    int
	Prod   int
}

func (e cbEvent) String() string {
	if e.Tok {
		return fmt.Sprintf("tok(%s %q @%d:%d)", e.Kind, e.Lexeme, e.Line, e.Col)
	}
	return fmt.Sprintf("prod(%d)", e.Prod)
}

var errSentinel = errors.New("verif sentinel callback error")

// errSentinels: the errors a callback may return - a plain one, one that wraps another error, and ones that wrap / are an
// error of the parser's own error type (as a callback that parses an included specification would return).
var errSentinels = []error{
	errSentinel,
	fmt.Errorf("cannot include %q: %w", "other.ebnf", &aparser.ParseError{Description: "unexpected string \")\"", Pos: lexer.Position{Filename: "other.ebnf", Offset: 7, Line: 2, Column: 3}}),
	&aparser.ParseError{Description: "nested failure", Cause: errors.New("inner cause")},
	fmt.Errorf("outer: %w", fmt.Errorf("middle: %w", errors.New("innermost"))),
}

// sentinelFor picks the error injected at a given step.
func sentinelFor(step int) error { return errSentinels[step%len(errSentinels)] }

// runParseCallbacks runs Parser.Parse on text; failAt >= 0 makes the failAt-th callback return the sentinel.
func runParseCallbacks(text string, failAt int) (log []cbEvent, err error, panicked any) {
	panicked, _ = safely(func() {
		p, e := eparser.New(fileName, strings.NewReader(text))
		if e != nil {
			err = e
			return
		}
		step := 0
		err = p.Parse(func(t *lexer.Token) error {
			log = append(log, cbEvent{Tok: true, Lexeme: t.Lexeme, Kind: string(t.Terminal), Off: t.Pos.Offset, Line: t.Pos.Line, Col: t.Pos.Column})
			step++
			if step-1 == failAt {
				return sentinelFor(failAt)
			}
			return nil
		}, func(i int) error {
			log = append(log, cbEvent{Prod: i})
			step++
			if step-1 == failAt {
				return sentinelFor(failAt)
			}
			return nil
		})
	})
	return
}

type evalTag struct {
	id   int
	prod int
}

type evalCall struct {
	Prod int
	Args []string // rendering of each argument: value identity + position
	Ret  *evalTag
}

// runEvaluate runs ParseAndEvaluate; failAt >= 0 makes the failAt-th evaluation return the sentinel.
func runEvaluate(text string, failAt int) (calls []evalCall, final *lr.Value, err error, panicked any) {
	return runEvaluateNil(text, failAt, nil)
}

// runEvaluateNil: as runEvaluate; the calls n for which nilAt(n) holds return (nil, nil) - a callback that has nothing to
// say about a production. The value of such a head is nil, whatever its body was.
func runEvaluateNil(text string, failAt int, nilAt func(n int) bool) (calls []evalCall, final *lr.Value, err error, panicked any) {
	panicked, _ = safely(func() {
		p, e := eparser.New(fileName, strings.NewReader(text))
		if e != nil {
			err = e
			return
		}
		n := 0
		final, err = p.ParseAndEvaluate(func(i int, rhs []*lr.Value) (any, error) {
			tag := &evalTag{id: n, prod: i}
			call := evalCall{Prod: i, Ret: tag}
			for _, v := range rhs {
				call.Args = append(call.Args, renderValue(v))
			}
			calls = append(calls, call)
			n++
			if n-1 == failAt {
				return nil, sentinelFor(failAt)
			}
			if nilAt != nil && nilAt(n-1) {
				return nil, nil
			}
			return tag, nil
		})
	})
	return
}

func renderValue(v *lr.Value) string {
	if v == nil {
		return "<nil value>"
	}
	pos := "nopos"
	if v.Pos != nil {
		pos = fmt.Sprintf("%d:%d:%d", v.Pos.Offset, v.Pos.Line, v.Pos.Column)
	}
	switch x := v.Val.(type) {
	case string:
		return fmt.Sprintf("lexeme %q @%s", x, pos)
	case *evalTag:
		return fmt.Sprintf("value#%d(prod %d) @%s", x.id, x.prod, pos)
	case nil:
		return "nil @" + pos
	}
	return fmt.Sprintf("%T @%s", v.Val, pos)
}

// expectedEvaluate computes, from the reference tree, the calls the evaluation callback must receive.
func expectedEvaluate(root *rnode, toks []rtok) []evalCall {
	return expectedEvaluateNil(root, toks, nil)
}

func expectedEvaluateNil(root *rnode, toks []rtok, nilAt func(n int) bool) []evalCall {
	var calls []evalCall
	type val struct {
		s   string // rendering without position
		pos string
	}
	var walk func(n *rnode) val
	walk = func(n *rnode) val {
		if n.Prod < 0 {
			t := toks[n.Tok]
			return val{fmt.Sprintf("lexeme %q", t.Lexeme), fmt.Sprintf("%d:%d:%d", t.Off, t.Line, t.Col)}
		}
		var args []string
		pos := "nopos"
		for i, k := range n.Kids {
			v := walk(k)
			args = append(args, v.s+" @"+v.pos)
			if i == 0 {
				pos = v.pos
			}
		}
		id := len(calls)
		calls = append(calls, evalCall{Prod: n.Prod, Args: args})
		if nilAt != nil && nilAt(id) {
			return val{"nil", pos}
		}
		return val{fmt.Sprintf("value#%d(prod %d)", id, n.Prod), pos}
	}
	walk(root)
	return calls
}

func expectedLog(rd rread) []cbEvent {
	var out []cbEvent
	for _, e := range rd.Events {
		if e.Tok >= 0 {
			t := rd.Scan.Toks[e.Tok]
			out = append(out, cbEvent{Tok: true, Lexeme: t.Lexeme, Kind: t.Kind, Off: t.Off, Line: t.Line, Col: t.Col})
		} else {
			out = append(out, cbEvent{Prod: e.Prod})
		}
	}
	return out
}

func runC18(c *ctx) {
	r := c.rng("specs")
	n := c.n(12000, 400000)
	injectEvery := c.n(40, 12) // every k-th text gets the full error-injection sweep
	for i := 0; i < n; i++ {
		g := genSyntacticSpec(r, 1+r.intn(6), 1+r.intn(4))
		semiMask := r.u64()
		toks := specTokens(g, func(k int) bool { return semiMask>>(uint(k)%60)&1 == 1 })
		lay := layout{seps: sepVaried, tight: r.chance(1, 3), comments: r.chance(1, 3), finalNL: r.chance(2, 3)}
		text := layoutTokens(toks, r, lay)
		if !c.mine() {
			continue
		}
		c18One(c, fmt.Sprintf("spec%d", i), text, i%injectEvery == 0)
	}
	// long / deep inputs (stack growth)
	idx := 0
	// more than a MiB of rules: every token and every reduction of the last rule must still arrive
	for _, nRules := range []int{65535, 65536, 70000} {
		var b strings.Builder
		b.WriteString("grammar g;\n")
		for k := 0; k < nRules; k++ {
			fmt.Fprintf(&b, "r%07d = \"a\" ;\n", k) // 16 bytes each
		}
		if c.mineIdx(idx) {
			c18One(c, fmt.Sprintf("big%d", nRules), b.String(), false)
			c.count("texts_larger_than_a_mebibyte", 1)
		}
		idx++
	}
	for _, d := range []int{200, 600, 1100, 2600} {
		var b strings.Builder
		b.WriteString("grammar g; start = ")
		for k := 0; k < d; k++ {
			b.WriteString(pick(r, []string{"( ", "[ ", "{ ", "{{ "}))
		}
		deep := b.String()
		_ = deep
		alts := "grammar g; start = " + strings.Repeat("\"a\" | ", d) + "b ;\n"
		nest := "grammar g; start = " + strings.Repeat("( ", d) + "x" + strings.Repeat(" )", d) + " ;\n"
		for _, t := range []string{alts, nest} {
			if c.mineIdx(idx) {
				c18One(c, fmt.Sprintf("deep%d", d), t, false)
				c.count("long_or_deep_texts", 1)
			}
			idx++
		}
	}
}

func c18One(c *ctx, name, text string, inject bool) {
	c.eval()
	rd := refRead(text)
	if rd.Scan.Masked {
		c.masked()
		return
	}
	if rd.Scan.Err || rd.ErrAt >= 0 {
		c.inconclusive("generator produced an invalid text (harness)")
		c.note("generator produced invalid text: %q", text)
		return
	}
	want := expectedLog(rd)
	got, err, pv := runParseCallbacks(text, -1)
	if pv != nil {
		c.inconclusive("panic (C14's business)")
		return
	}
	eps := 0
	for _, e := range want {
		if !e.Tok && len(docProds[e.Prod].body) == 0 {
			eps++
		}
	}
	if len(want) >= 10 && eps >= 1 {
		c.nontrivial(text)
	}
	c.count("callbacks_observed", int64(len(got)))
	if err != nil {
		c.violate(violation{Case: name, Input: text, Observed: "Parse returned " + err.Error(), Expected: "valid specification: accepted"})
		return
	}
	if d := diffLogs(want, got); d != "" {
		c.violate(violation{Case: name, Input: text, Observed: d, Expected: "callback log = post-order of the derivation (reverse rightmost derivation)"})
		return
	}
	// evaluation
	calls, final, err, pv := runEvaluate(text, -1)
	if pv != nil {
		c.inconclusive("panic (C14's business)")
		return
	}
	wantCalls := expectedEvaluate(rd.Root, rd.Scan.Toks)
	if err != nil {
		c.violate(violation{Case: name, Input: text, Observed: "ParseAndEvaluate returned " + err.Error(), Expected: "accepted"})
		return
	}
	if len(calls) != len(wantCalls) {
		c.violate(violation{Case: name, Input: text, Observed: fmt.Sprintf("%d evaluation calls", len(calls)), Expected: fmt.Sprintf("%d (one per reduction)", len(wantCalls))})
		return
	}
	for i := range calls {
		if calls[i].Prod != wantCalls[i].Prod || strings.Join(calls[i].Args, " , ") != strings.Join(wantCalls[i].Args, " , ") {
			c.violate(violation{Case: name, Input: text, Observed: fmt.Sprintf("evaluation call #%d: production %d with arguments [%s]", i, calls[i].Prod, strings.Join(calls[i].Args, " , ")),
				Expected: fmt.Sprintf("production %d with arguments [%s] (values of the body symbols left to right, position of the first body symbol)", wantCalls[i].Prod, strings.Join(wantCalls[i].Args, " , "))})
			return
		}
	}
	c.count("evaluation_calls_observed", int64(len(calls)))
	if final == nil {
		c.violate(violation{Case: name, Input: text, Observed: "nil result without error", Expected: "the root value"})
		return
	}
	if tag, ok := final.Val.(*evalTag); !ok || tag != calls[len(calls)-1].Ret {
		c.violate(violation{Case: name, Input: text, Observed: "final value " + renderValue(final), Expected: "the value returned for production 0 (the root)"})
		return
	}
	// the same with callbacks that return (nil, nil) for some reductions: the head's value is then nil
	for _, mask := range []uint64{0xAAAAAAAAAAAAAAAA, 0x5555555555555555 ^ uint64(len(text))*0x9E3779B97F4A7C15, ^uint64(0)} {
		nilAt := func(n int) bool { return mask>>(uint(n)%64)&1 == 1 }
		calls2, final2, err, pv := runEvaluateNil(text, -1, nilAt)
		if pv != nil {
			c.inconclusive("panic (C14's business)")
			return
		}
		want2 := expectedEvaluateNil(rd.Root, rd.Scan.Toks, nilAt)
		if err != nil || len(calls2) != len(want2) {
			c.violate(violation{Case: name + "/nil-results", Input: text, Observed: fmt.Sprintf("%d evaluation calls, error %v", len(calls2), err), Expected: fmt.Sprintf("%d calls, accepted", len(want2))})
			return
		}
		for i := range calls2 {
			if calls2[i].Prod != want2[i].Prod || strings.Join(calls2[i].Args, " , ") != strings.Join(want2[i].Args, " , ") {
				c.violate(violation{Case: name + "/nil-results", Input: map[string]any{"text": text, "calls_returning_nil_mask": fmt.Sprintf("%#x", mask)}, Observed: fmt.Sprintf("evaluation call #%d: production %d with arguments [%s]", i, calls2[i].Prod, strings.Join(calls2[i].Args, " , ")),
					Expected: fmt.Sprintf("production %d with arguments [%s] (a callback that returned nil gives its head the value nil)", want2[i].Prod, strings.Join(want2[i].Args, " , "))})
				return
			}
		}
		if final2 == nil {
			c.violate(violation{Case: name + "/nil-results", Input: text, Observed: "nil result value without error", Expected: "the root value (a *Value whose Val may be nil)"})
			return
		}
		if rootNil := nilAt(len(calls2) - 1); rootNil != (final2.Val == nil) {
			c.violate(violation{Case: name + "/nil-results", Input: text, Observed: "final value " + renderValue(final2), Expected: fmt.Sprintf("nil root value: %v", rootNil)})
			return
		}
		c.count("evaluation_calls_observed_with_nil_results", int64(len(calls2)))
	}
	if c.res.Evaluations%211 == 1 {
		c.sample(map[string]any{"text": text, "callbacks": len(got), "first_events": fmt.Sprint(got[:min(8, len(got))])})
	}
	if !inject {
		return
	}
	// error injection at every step
	for step := 0; step < len(want); step++ {
		g2, err, pv := runParseCallbacks(text, step)
		c.count("error_injection_runs", 1)
		if pv != nil {
			c.inconclusive("panic (C14's business)")
			return
		}
		if len(g2) != step+1 {
			c.violate(violation{Case: name + "/inject", Input: map[string]any{"text": text, "failing_step": step, "event": want[step].String()},
				Observed: fmt.Sprintf("%d callbacks were made", len(g2)), Expected: fmt.Sprintf("parse stops at step %d: exactly %d callbacks", step, step+1)})
			return
		}
		if err == nil || !errors.Is(err, sentinelFor(step)) {
			c.violate(violation{Case: name + "/inject", Input: map[string]any{"text": text, "failing_step": step, "event": want[step].String()},
				Observed: fmt.Sprintf("Parse returned %v", err), Expected: "the callback's error (errors.Is)"})
			return
		}
	}
	for step := 0; step < len(wantCalls); step++ {
		c2, _, err, pv := runEvaluate(text, step)
		c.count("error_injection_runs", 1)
		if pv != nil {
			c.inconclusive("panic (C14's business)")
			return
		}
		if len(c2) != step+1 || err == nil || !errors.Is(err, sentinelFor(step)) {
			c.violate(violation{Case: name + "/inject-eval", Input: map[string]any{"text": text, "failing_evaluation": step, "production": wantCalls[step].Prod},
				Observed: fmt.Sprintf("%d evaluation calls, returned error %v", len(c2), err), Expected: fmt.Sprintf("stops after %d calls and returns the callback's error", step+1)})
			return
		}
	}
}

func diffLogs(want, got []cbEvent) string {
	for i := 0; i < len(want) && i < len(got); i++ {
		if want[i] != got[i] {
			return fmt.Sprintf("callback #%d is %s, expected %s", i, got[i], want[i])
		}
	}
	if len(got) != len(want) {
		return fmt.Sprintf("%d callbacks, expected %d", len(got), len(want))
	}
	return ""
}

func init() {
	auxCommands["gencheck"] = func(args []string) int {
		r := newRng(1, "gencheck")
		bad := 0
		for i := 0; i < 3000 && bad < 6; i++ {
			g := genSyntacticSpec(r, 1+r.intn(4), 1+r.intn(3))
			semiMask := r.u64()
			toks := specTokens(g, func(k int) bool { return semiMask>>(uint(k)%60)&1 == 1 })
			text := layoutTokens(toks, nil, layout{})
			rd := refRead(text)
			if rd.Scan.Err || rd.ErrAt >= 0 {
				bad++
				at := "?"
				if rd.ErrAt >= 0 && rd.ErrAt < len(rd.Scan.Toks) {
					at = fmt.Sprintf("token #%d %v", rd.ErrAt, rd.Scan.Toks[rd.ErrAt])
				}
				fmt.Printf("INVALID lexErr=%v errAt=%d (%s)\n  %s\n", rd.Scan.Err, rd.ErrAt, at, text)
			}
		}
		return 0
	}
}

//go:build verif_noshim

package main

const haveLexShim = false

func lexAdvance(s int, r rune) int { return -1 }
func lexEvalState(s int) string    { return "" }

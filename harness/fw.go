package main

// Framework: tiers, seeds, sharding over child processes, three-valued verdicts, known findings,
// evidence files.  See /verif/DESIGN.md sections 2 and 4.

import (
	"bufio"
	"bytes"
	"context"
	"crypto/sha256"
	"encoding/hex"
	"encoding/json"
	"fmt"
	"os"
	"os/exec"
	"path/filepath"
	"runtime"
	"runtime/debug"
	"sort"
	"strconv"
	"strings"
	"sync"
	"time"
)

// verifDir is the home of the framework (the directory of the check script; /verif unless VERIF_HOME says otherwise).
var verifDir = func() string {
	if v := os.Getenv("VERIF_HOME"); v != "" {
		return v
	}
	return "/verif"
}()

// ---------------------------------------------------------------------------------------------
// PRNG (splitmix64): case lists are a pure function of (seed, tier, property id).

type rng struct{ s uint64 }

func newRng(seed uint64, salt string) *rng {
	h := sha256.Sum256([]byte(salt))
	var x uint64
	for i := 0; i < 8; i++ {
		x = x<<8 | uint64(h[i])
	}
	return &rng{s: seed*0x9E3779B97F4A7C15 ^ x}
}

func (r *rng) u64() uint64 {
	r.s += 0x9E3779B97F4A7C15
	z := r.s
	z = (z ^ (z >> 30)) * 0xBF58476D1CE4E5B9
	z = (z ^ (z >> 27)) * 0x94D049BB133111EB
	return z ^ (z >> 31)
}
func (r *rng) intn(n int) int {
	if n <= 0 {
		return 0
	}
	return int(r.u64() % uint64(n))
}
func (r *rng) chance(num, den int) bool { return r.intn(den) < num }
func pick[T any](r *rng, xs []T) T      { return xs[r.intn(len(xs))] }

// ---------------------------------------------------------------------------------------------
// Property registry.

type property struct {
	id    string
	level string // evidence level
	rule  string // how cases are generated and what makes one non-trivial / distinct
	run   func(c *ctx)
	// assumptions listed in the evidence file
	assumptions []string
	// floor: minimal number of evaluations a run must have observed (else inconclusive)
	floorQuick, floorThorough int
	// serial: run in a single process (no sharding)
	serial bool
}

var registry = map[string]*property{}

func register(p *property) { registry[p.id] = p }

// ---------------------------------------------------------------------------------------------
// Per-shard context and result.

type violation struct {
	Sig      string `json:"sig"`      // input-side signature (matched against known findings)
	Case     string `json:"case"`     // regenerating id (generator name + index) or the input itself
	Input    any    `json:"input"`    // the input fed to the real code
	Observed any    `json:"observed"` // what emerge did
	Expected any    `json:"expected"` // what the reference model says
	Note     string `json:"note,omitempty"`
}

type shardResult struct {
	Evaluations  int64               `json:"evaluations"`
	Nontrivial   []string            `json:"nontrivial"` // hashes of distinct non-trivial cases
	Samples      []any               `json:"samples"`
	Counters     map[string]int64    `json:"counters"`
	Sets         map[string][]string `json:"sets"` // named sets of observed things (states, kinds, ...)
	Violations   []violation         `json:"violations"`
	Inconclusive int64               `json:"inconclusive"`
	InconReasons map[string]int64    `json:"incon_reasons"`
	Masked       int64               `json:"masked"`
	Exhaustive   map[string]bool     `json:"exhaustive"`
	Notes        []string            `json:"notes"`
	Done         bool                `json:"done"`
}

type ctx struct {
	prop    *property
	tier    string
	seed    uint64
	shard   int
	of      int
	workDir string
	res     shardResult
	nontriv map[string]struct{}
	sets    map[string]map[string]struct{}
	caseNo  int64
	mu      sync.Mutex
	maxViol int
	replay  string
}

func (c *ctx) quick() bool    { return c.tier == "quick" }
func (c *ctx) thorough() bool { return c.tier == "thorough" }

// pickTier returns q in the quick tier and t in the thorough tier.
func (c *ctx) n(q, t int) int {
	if c.quick() {
		return q
	}
	return t
}

func (c *ctx) rng(salt string) *rng { return newRng(c.seed, c.prop.id+"/"+salt) }

// mine implements sharding: every shard generates the same case list and keeps every of-th case.
func (c *ctx) mine() bool {
	i := c.caseNo
	c.caseNo++
	return int(i%int64(c.of)) == c.shard
}

// mineKey shards by an explicit index (for nested enumerations).
func (c *ctx) mineIdx(i int) bool { return i%c.of == c.shard }

func (c *ctx) eval() {
	c.mu.Lock()
	c.res.Evaluations++
	c.mu.Unlock()
}
func (c *ctx) evalN(n int64) {
	c.mu.Lock()
	c.res.Evaluations += n
	c.mu.Unlock()
}

func hashKey(s string) string {
	h := sha256.Sum256([]byte(s))
	return hex.EncodeToString(h[:8])
}

// nontrivial records a distinct non-trivial case by its canonical form.
func (c *ctx) nontrivial(canon string) {
	k := hashKey(canon)
	c.mu.Lock()
	c.nontriv[k] = struct{}{}
	c.mu.Unlock()
}

func (c *ctx) sample(s any) {
	c.mu.Lock()
	if len(c.res.Samples) < 6 {
		c.res.Samples = append(c.res.Samples, s)
	}
	c.mu.Unlock()
}

func (c *ctx) count(name string, n int64) {
	c.mu.Lock()
	c.res.Counters[name] += n
	c.mu.Unlock()
}

func (c *ctx) setAdd(name, elem string) {
	c.mu.Lock()
	m := c.sets[name]
	if m == nil {
		m = map[string]struct{}{}
		c.sets[name] = m
	}
	m[elem] = struct{}{}
	c.mu.Unlock()
}

func (c *ctx) exhaustive(name string, v bool) {
	c.mu.Lock()
	c.res.Exhaustive[name] = v
	c.mu.Unlock()
}

func (c *ctx) note(format string, a ...any) {
	c.mu.Lock()
	if len(c.res.Notes) < 50 {
		c.res.Notes = append(c.res.Notes, fmt.Sprintf(format, a...))
	}
	c.mu.Unlock()
}

func (c *ctx) inconclusive(reason string) {
	c.mu.Lock()
	c.res.Inconclusive++
	c.res.InconReasons[reason]++
	c.mu.Unlock()
}

func (c *ctx) masked() {
	c.mu.Lock()
	c.res.Masked++
	c.mu.Unlock()
}

// violate records a violation. sig is an input-side signature: a short class name describing the *input*
// (e.g. "gen-name-collision"), or "" for no class; it is matched against known_findings.json.
func (c *ctx) violate(v violation) {
	c.mu.Lock()
	defer c.mu.Unlock()
	// keep at most maxViol per signature to bound output
	n := 0
	for _, w := range c.res.Violations {
		if w.Sig == v.Sig {
			n++
		}
	}
	if n >= c.maxViol {
		c.res.Counters["violations_dropped_"+v.Sig]++
		return
	}
	c.res.Violations = append(c.res.Violations, v)
}

// guard writes the input about to be processed to disk, so a process-fatal crash leaves a witness.
func (c *ctx) guard(input string) {
	_ = os.WriteFile(filepath.Join(c.workDir, fmt.Sprintf("shard-%d.cur", c.shard)), []byte(input), 0o644)
}

// safely runs f and converts a panic into (recovered value, stack).
func safely(f func()) (pv any, stack string) {
	defer func() {
		if r := recover(); r != nil {
			pv = r
			stack = string(debug.Stack())
		}
	}()
	f()
	return nil, ""
}

// ---------------------------------------------------------------------------------------------
// Known findings.

type finding struct {
	Property string `json:"property"`
	ID       string `json:"id"`
	Status   string `json:"status"` // open | fixed
	Sig      string `json:"sig"`    // signature that a violation must carry to be attributed to this finding
	What     string `json:"what"`
	Example  string `json:"example,omitempty"`
	Commit   string `json:"commit,omitempty"`
	Note     string `json:"note,omitempty"`
}

func loadFindings() []finding {
	b, err := os.ReadFile(filepath.Join(verifDir, "known_findings.json"))
	if err != nil {
		return nil
	}
	var doc struct {
		Findings []finding `json:"findings"`
	}
	if err := json.Unmarshal(b, &doc); err != nil {
		fmt.Fprintf(os.Stderr, "known_findings.json: %v\n", err)
		os.Exit(2)
	}
	return doc.Findings
}

// ---------------------------------------------------------------------------------------------
// Parent: spawn shards, merge, decide, write evidence.

func runParent(id, tier string, seed uint64, replay string) int {
	p := registry[id]
	if p == nil {
		fmt.Printf("INCONCLUSIVE property=%s reason=unknown-property\n", id)
		return 2
	}
	start := time.Now()
	// replay: the case list is a pure function of (property, tier, seed), so re-running with the recorded tier and
	// seed regenerates the recorded case; the run then reports whether the same violation shows again.
	var replayCase, replayInput string
	if replay != "" {
		b, err := os.ReadFile(replay)
		if err != nil {
			fmt.Printf("INCONCLUSIVE property=%s reason=cannot read replay file: %v\n", id, err)
			return 2
		}
		var rec struct {
			Tier      string    `json:"tier"`
			Seed      uint64    `json:"seed"`
			Violation violation `json:"violation"`
		}
		if err := json.Unmarshal(b, &rec); err != nil {
			fmt.Printf("INCONCLUSIVE property=%s reason=bad replay file: %v\n", id, err)
			return 2
		}
		tier, seed = rec.Tier, rec.Seed
		replayCase, replayInput = rec.Violation.Case, short(rec.Violation.Input)
		fmt.Printf("replaying %s: tier=%s seed=%d case=%s\n  recorded input=%s\n  recorded observation=%s\n", replay, tier, seed, replayCase, replayInput, short(rec.Violation.Observed))
		replay = ""
		defer func() { fmt.Println("(replay run: evidence file rewritten for the recorded tier and seed)") }()
	}
	workDir := filepath.Join(verifDir, "work", id)

	_ = os.RemoveAll(workDir)
	if err := os.MkdirAll(workDir, 0o755); err != nil {
		fmt.Printf("INCONCLUSIVE property=%s reason=%v\n", id, err)
		return 2
	}
	of := runtime.NumCPU()
	if v := os.Getenv("VERIF_PROCS"); v != "" {
		if n, err := strconv.Atoi(v); err == nil && n > 0 {
			of = n
		}
	}
	if p.serial || replay != "" {
		of = 1
	}
	self, _ := os.Executable()
	type childOut struct {
		err    error
		stderr string
	}
	outs := make([]childOut, of)
	var wg sync.WaitGroup
	for i := 0; i < of; i++ {
		wg.Add(1)
		go func(i int) {
			defer wg.Done()
			args := []string{"shard", id, "--tier", tier, "--seed", strconv.FormatUint(seed, 10), "--shard", strconv.Itoa(i), "--of", strconv.Itoa(of)}
			if replay != "" {
				args = append(args, "--replay", replay)
			}
			// generous wall-clock watchdog: its firing is INCONCLUSIVE, never a verdict
			limit := 20 * time.Minute
			if tier == "thorough" {
				limit = 90 * time.Minute
			}
			if v := os.Getenv("VERIF_SHARD_TIMEOUT_S"); v != "" {
				if n, err := strconv.Atoi(v); err == nil && n > 0 {
					limit = time.Duration(n) * time.Second
				}
			}
			wctx, cancel := context.WithTimeout(context.Background(), limit)
			defer cancel()
			cmd := exec.CommandContext(wctx, self, args...)
			var eb bytes.Buffer
			cmd.Stderr = &eb
			cmd.Stdout = &eb
			cmd.Env = os.Environ()
			err := cmd.Run()
			s := eb.String()
			if len(s) > 20000 {
				s = s[:8000] + "\n...\n" + s[len(s)-8000:]
			}
			outs[i] = childOut{err, s}
		}(i)
	}
	wg.Wait()

	merged := shardResult{Counters: map[string]int64{}, InconReasons: map[string]int64{}, Exhaustive: map[string]bool{}}
	nontriv := map[string]struct{}{}
	sets := map[string]map[string]struct{}{}
	dead := 0
	var deadNotes []string
	for i := 0; i < of; i++ {
		var r shardResult
		b, err := os.ReadFile(filepath.Join(workDir, fmt.Sprintf("shard-%d.json", i)))
		if err == nil {
			err = json.Unmarshal(b, &r)
		}
		if err != nil || !r.Done {
			dead++
			cur, _ := os.ReadFile(filepath.Join(workDir, fmt.Sprintf("shard-%d.cur", i)))
			crashFile := filepath.Join(workDir, fmt.Sprintf("shard-%d.crash.txt", i))
			_ = os.WriteFile(crashFile, []byte(fmt.Sprintf("shard %d died: %v\nlast guarded input: %q\n--- output ---\n%s\n", i, outs[i].err, cur, outs[i].stderr)), 0o644)
			deadNotes = append(deadNotes, crashFile)
			if dc := deadShardHandlers[id]; dc != nil {
				if v := dc(string(cur), outs[i].stderr); v != nil {
					merged.Violations = append(merged.Violations, *v)
				}
			}
			continue
		}
		merged.Evaluations += r.Evaluations
		merged.Inconclusive += r.Inconclusive
		merged.Masked += r.Masked
		for k, v := range r.Counters {
			merged.Counters[k] += v
		}
		for k, v := range r.InconReasons {
			merged.InconReasons[k] += v
		}
		for k, v := range r.Exhaustive {
			if old, ok := merged.Exhaustive[k]; ok {
				merged.Exhaustive[k] = old && v
			} else {
				merged.Exhaustive[k] = v
			}
		}
		for _, k := range r.Nontrivial {
			nontriv[k] = struct{}{}
		}
		for name, elems := range r.Sets {
			m := sets[name]
			if m == nil {
				m = map[string]struct{}{}
				sets[name] = m
			}
			for _, e := range elems {
				m[e] = struct{}{}
			}
		}
		if len(merged.Samples) < 8 {
			for _, s := range r.Samples {
				if len(merged.Samples) < 8 {
					merged.Samples = append(merged.Samples, s)
				}
			}
		}
		merged.Violations = append(merged.Violations, r.Violations...)
		merged.Notes = append(merged.Notes, r.Notes...)
	}

	// Decide.
	findings := loadFindings()
	openBySig := map[string]*finding{}
	for i := range findings {
		f := &findings[i]
		if f.Property == id && f.Status == "open" {
			openBySig[f.Sig] = f
		}
	}
	knownHit := map[string]int{}
	var fresh []violation
	for _, v := range merged.Violations {
		if f, ok := openBySig[v.Sig]; ok && v.Sig != "" {
			knownHit[f.ID]++
			continue
		}
		fresh = append(fresh, v)
	}
	// stable order
	sort.SliceStable(fresh, func(i, j int) bool { return fresh[i].Sig < fresh[j].Sig })

	exit := 0
	var knownIDs []string
	for k := range knownHit {
		knownIDs = append(knownIDs, k)
	}
	sort.Strings(knownIDs)
	for _, k := range knownIDs {
		for _, f := range findings {
			if f.ID == k && f.Property == id {
				fmt.Printf("KNOWN-FINDING: property=%s %s [%s; %d case(s) this run]\n", id, f.What, f.ID, knownHit[k])
			}
		}
	}
	if replayCase != "" {
		found := false
		for _, v := range merged.Violations {
			if v.Case == replayCase && short(v.Input) == replayInput {
				found = true
			}
		}
		fmt.Printf("replay: recorded violation reproduced=%v\n", found)
	}
	maxPrint := 10
	for i, v := range fresh {
		path := filepath.Join(workDir, fmt.Sprintf("violation-%d.json", i))
		b, _ := json.MarshalIndent(map[string]any{"property": id, "tier": tier, "seed": seed, "violation": v}, "", " ")
		_ = os.WriteFile(path, b, 0o644)
		if i < maxPrint {
			fmt.Printf("VIOLATION property=%s replay=%s\n", id, path)
			fmt.Printf("  sig=%s case=%s\n  input=%s\n  observed=%s\n  expected=%s\n  %s\n", v.Sig, v.Case, short(v.Input), short(v.Observed), short(v.Expected), v.Note)
		}
		exit = 1
	}
	if len(fresh) > maxPrint {
		fmt.Printf("  ... and %d more violations (see %s)\n", len(fresh)-maxPrint, workDir)
	}

	floor := p.floorQuick
	if tier == "thorough" {
		floor = p.floorThorough
	}
	inconclusiveRun := false
	reason := ""
	if dead > 0 {
		inconclusiveRun = true
		reason = fmt.Sprintf("%d shard(s) died: %s", dead, strings.Join(deadNotes, ","))
	} else if replay == "" && len(merged.Samples) == 0 {
		inconclusiveRun = true
		reason = "the run recorded no sample of what it explored"
	} else if replay == "" && merged.Evaluations < int64(floor) {
		inconclusiveRun = true
		reason = fmt.Sprintf("observed only %d evaluations, floor is %d", merged.Evaluations, floor)
	} else if replay == "" && merged.Evaluations > 0 && merged.Inconclusive*20 > merged.Evaluations {
		inconclusiveRun = true
		reason = fmt.Sprintf("%d of %d cases inconclusive (>5%%): %v", merged.Inconclusive, merged.Evaluations, merged.InconReasons)
	}

	// Evidence.
	if replay == "" {
		cov := map[string]any{
			"evaluations":         merged.Evaluations,
			"distinct_nontrivial": len(nontriv),
			"rule":                p.rule,
			"samples":             merged.Samples,
			"inconclusive":        merged.Inconclusive,
			"inconclusive_why":    merged.InconReasons,
			"masked":              merged.Masked,
			"counters":            merged.Counters,
			"known_findings_hit":  knownHit,
			"shards":              of,
			"dead_shards":         dead,
			"notes":               dedupe(merged.Notes, 30),
			"harness_build":       buildMode,
		}
		ex := true
		if len(merged.Exhaustive) == 0 {
			ex = false
		}
		exParts := map[string]bool{}
		for k, v := range merged.Exhaustive {
			exParts[k] = v
			if !v {
				ex = false
			}
		}
		if len(exParts) > 0 {
			cov["exhaustive_parts"] = exParts
		}
		if ex && dead == 0 {
			// only claimed when every enumerated sub-space reported complete coverage; random parts are not sub-spaces
			cov["exhaustive_of_enumerated_subspaces"] = true
		}
		for name, m := range sets {
			cov["distinct_"+name] = len(m)
			if len(m) <= 80 {
				var xs []string
				for e := range m {
					xs = append(xs, e)
				}
				sort.Strings(xs)
				cov["set_"+name] = xs
			}
		}
		if len(merged.Samples) == 0 {
			cov["samples"] = []any{}
		}
		ev := map[string]any{
			"property_id": id,
			"tier":        tier,
			"seed":        seed,
			"level":       p.level,
			"coverage":    cov,
			"assumptions": p.assumptions,
			"wall_s":      time.Since(start).Seconds(),
			"violations":  len(fresh),
			"verdict":     map[bool]string{true: "violated", false: map[bool]string{true: "inconclusive", false: "held on what was observed"}[inconclusiveRun]}[exit == 1],
		}
		b, _ := json.MarshalIndent(ev, "", " ")
		_ = os.MkdirAll(filepath.Join(verifDir, "evidence"), 0o755)
		_ = os.WriteFile(filepath.Join(verifDir, "evidence", id+".json"), append(b, '\n'), 0o644)
	}

	fmt.Printf("%s tier=%s seed=%d: evaluations=%d distinct_nontrivial=%d masked=%d inconclusive=%d known=%v violations=%d wall=%.1fs\n",
		id, tier, seed, merged.Evaluations, len(nontriv), merged.Masked, merged.Inconclusive, knownHit, len(fresh), time.Since(start).Seconds())
	var ck []string
	for k := range merged.Counters {
		ck = append(ck, k)
	}
	sort.Strings(ck)
	for _, k := range ck {
		fmt.Printf("  %s=%d\n", k, merged.Counters[k])
	}
	if exit == 1 {
		return 1
	}
	if inconclusiveRun {
		fmt.Printf("INCONCLUSIVE property=%s reason=%s\n", id, reason)
		return 2
	}
	return 0
}

// deadShardHandlers lets a property turn the death of a worker into a violation (only C14 does).
var deadShardHandlers = map[string]func(lastInput, output string) *violation{}

func dedupe(xs []string, max int) []string {
	seen := map[string]bool{}
	var out []string
	for _, x := range xs {
		if !seen[x] {
			seen[x] = true
			out = append(out, x)
			if len(out) >= max {
				break
			}
		}
	}
	return out
}

func short(v any) string {
	var s string
	switch t := v.(type) {
	case string:
		s = strconv.Quote(t)
	default:
		b, _ := json.Marshal(v)
		s = string(b)
	}
	if len(s) > 600 {
		s = s[:600] + "…"
	}
	return s
}

func runShard(id, tier string, seed uint64, shard, of int, replay string) int {
	p := registry[id]
	if p == nil {
		return 2
	}
	workDir := filepath.Join(verifDir, "work", id)
	c := &ctx{prop: p, tier: tier, seed: seed, shard: shard, of: of, workDir: workDir,
		nontriv: map[string]struct{}{}, sets: map[string]map[string]struct{}{}, maxViol: 5, replay: replay}
	c.res.Counters = map[string]int64{}
	c.res.InconReasons = map[string]int64{}
	c.res.Exhaustive = map[string]bool{}
	p.run(c)
	for k := range c.nontriv {
		c.res.Nontrivial = append(c.res.Nontrivial, k)
	}
	c.res.Sets = map[string][]string{}
	for name, m := range c.sets {
		for e := range m {
			c.res.Sets[name] = append(c.res.Sets[name], e)
		}
	}
	c.res.Done = true
	b, err := json.Marshal(&c.res)
	if err != nil {
		fmt.Fprintln(os.Stderr, "marshal:", err)
		return 2
	}
	if err := os.WriteFile(filepath.Join(workDir, fmt.Sprintf("shard-%d.json", shard)), b, 0o644); err != nil {
		fmt.Fprintln(os.Stderr, err)
		return 2
	}
	return 0
}

// ---------------------------------------------------------------------------------------------

func repoDir() string {
	if v := os.Getenv("VERIF_REPO"); v != "" {
		return v
	}
	return "/repo"
}

func readLines(path string) []string {
	f, err := os.Open(path)
	if err != nil {
		return nil
	}
	defer f.Close()
	var out []string
	sc := bufio.NewScanner(f)
	sc.Buffer(make([]byte, 1<<20), 1<<26)
	for sc.Scan() {
		out = append(out, sc.Text())
	}
	return out
}

func main() {
	if len(os.Args) < 3 {
		fmt.Fprintln(os.Stderr, "usage: vh run|shard <ID> --tier quick|thorough --seed N [--shard i --of k] [--replay file]")
		os.Exit(2)
	}
	mode, id := os.Args[1], os.Args[2]
	tier, replay := "quick", ""
	var seed uint64 = 1
	shard, of := 0, 1
	for i := 3; i < len(os.Args); i++ {
		next := func() string {
			i++
			if i < len(os.Args) {
				return os.Args[i]
			}
			return ""
		}
		switch os.Args[i] {
		case "--tier":
			tier = next()
		case "--seed":
			v, _ := strconv.ParseInt(next(), 10, 64)
			seed = uint64(v)
		case "--shard":
			shard, _ = strconv.Atoi(next())
		case "--of":
			of, _ = strconv.Atoi(next())
		case "--replay":
			replay = next()
		}
	}
	if tier != "quick" && tier != "thorough" {
		tier = "quick"
	}
	switch mode {
	case "run":
		os.Exit(runParent(id, tier, seed, replay))
	case "shard":
		os.Exit(runShard(id, tier, seed, shard, of, replay))
	case "aux":
		os.Exit(runAux(id, os.Args[3:]))
	}
	os.Exit(2)
}

// runAux dispatches helper sub-commands used by some checks (children that must be separate processes).
var auxCommands = map[string]func(args []string) int{}

func runAux(name string, args []string) int {
	if f := auxCommands[name]; f != nil {
		return f(args)
	}
	fmt.Fprintln(os.Stderr, "unknown aux command", name)
	return 2
}

package main

// C11 - syntax trees of a specification reflect the source exactly and round-trip.
// C13 - the result depends only on the token sequence, not on layout, padding or file size.

import (
	"fmt"
	"github.com/gardenbed/emerge/internal/ebnf/parser/spec"
	"io"
	"strings"
	"time"

	"github.com/moorara/algo/parser"

	eparser "github.com/gardenbed/emerge/internal/ebnf/parser"
)

func init() {
	register(&property{
		id:    "C11",
		level: "exploration",
		rule: "seeded syntactically valid specifications (no declarations at all, only tokens, only directives, empty rules, trailing and doubled '|', groups around alternations, nesting to depth 8, every declaration order, comments with tabs, varied separators) and well-formed ones: " +
			"(a) ParseAndBuildAST: leaves left-to-right = the reference scanner's significant tokens (terminal, lexeme, offset/line/column) and every interior node (head, children symbols) is a documented production - the whole tree equals the reference reader's tree; " +
			"(b) ebnf ast.Parse: the typed tree equals the reference typed tree after the representational normalisation both sides share (groups transparent, nested concat/alt flattened): same declarations in order, kinds, names, values, associativities, handles, operators, nesting, operand order and positions; " +
			"(c) the typed tree is printed back to EBNF by the harness' unparser and parsed again: equal trees (own comparison ignoring positions, and emerge's Equal on two parses of the printed text); (d) for well-formed texts the bounded language of every user rule derived from the typed tree equals the one of spec.Parse's grammar. " +
			"non-trivial = >= 2 declarations of different kinds or nesting depth >= 3; distinct by text.",
		assumptions: []string{"reference trees from R1 (cross-validated against the tables by C04)", "representational normalisation: groups transparent, concat/alt flattened, $NAME expanded to its pattern"},
		floorQuick:  3000, floorThorough: 40000,
		run: runC11,
	})
	register(&property{
		id:    "C13",
		level: "exploration",
		rule: "base specifications (well-formed ones, and a few with a syntax / lexical / well-formedness error) x (i) seeded layouts of the SAME token sequence: every separator drawn from {space, tab, LF, CRLF, several}, comments of both kinds (with tabs) at any gap, optional semicolons present/absent, final newline present/absent; " +
			"(ii) padding sweep: p blanks (and, for some, p bytes of comment or p bytes of short lines) inserted before the first token, in the middle and before the last token for EVERY p in 0..2*4096+64 (thorough: up to 5 buffer lengths), sliding every later token across every buffer alignment. " +
			"For each variant: the canonical rendering of spec.Parse's result (name, productions, definitions, precedences) and of ebnf ast.Parse's typed tree must equal the base's; the real token stream's positions must equal the reference scanner's on that variant; rejected bases must be rejected with the same diagnostic at the shifted position. " +
			"non-trivial = variant differs from the canonical text in >= 2 gaps, or a sweep step; distinct by text.",
		assumptions: []string{"NUL bytes are excluded (the reader's sentinel)", "positions are checked against the reference scanner R1 on each variant (absolute, not relative)"},
		floorQuick:  20000, floorThorough: 300000,
		run: runC13,
	})
}

func exprDepth(e *rexpr) int {
	if e == nil {
		return 0
	}
	d := 0
	for _, k := range e.Kids {
		if x := exprDepth(k); x > d {
			d = x
		}
	}
	switch e.Kind {
	case xGroup, xOpt, xStar, xPlus:
		return d + 1
	}
	return d
}

// compareGenericTree walks emerge's generic tree and the reference tree in lockstep.
func compareGenericTree(n parser.Node, r *rnode, toks []rtok) string {
	switch v := n.(type) {
	case *parser.LeafNode:
		if r.Prod >= 0 {
			return fmt.Sprintf("leaf %q where the reference has production %d", v.Lexeme, r.Prod)
		}
		t := toks[r.Tok]
		if string(v.Terminal) != t.Kind || v.Lexeme != t.Lexeme || v.Position.Offset != t.Off || v.Position.Line != t.Line || v.Position.Column != t.Col {
			return fmt.Sprintf("leaf (%s %q @%d:%d:%d), expected token #%d %+v", v.Terminal, v.Lexeme, v.Position.Offset, v.Position.Line, v.Position.Column, r.Tok, t)
		}
		return ""
	case *parser.InternalNode:
		if r.Prod < 0 {
			return fmt.Sprintf("interior node %s where the reference has token #%d", v.NonTerminal, r.Tok)
		}
		d := docProds[r.Prod]
		var body []string
		for _, k := range v.Children {
			switch x := k.(type) {
			case *parser.InternalNode:
				body = append(body, string(x.NonTerminal))
			case *parser.LeafNode:
				body = append(body, string(x.Terminal))
			}
		}
		if string(v.NonTerminal) != d.head || strings.Join(body, " ") != strings.Join(d.body, " ") {
			return fmt.Sprintf("interior node %s -> %v, expected production %d: %s", v.NonTerminal, body, r.Prod, prodStr(r.Prod))
		}
		if v.Production != nil {
			if string(v.Production.Head) != d.head || len(v.Production.Body) != len(d.body) {
				return fmt.Sprintf("node's Production field %s does not match its children (%s)", v.Production, prodStr(r.Prod))
			}
		}
		for i, k := range v.Children {
			if m := compareGenericTree(k, r.Kids[i], toks); m != "" {
				return m
			}
		}
		return ""
	}
	return fmt.Sprintf("unexpected node type %T", n)
}

func c11Check(c *ctx, name, text string, wellFormed bool) {
	c.eval()
	rd := refRead(text)
	if rd.Scan.Masked {
		c.masked()
		return
	}
	if rd.Tree == nil {
		c.inconclusive("generator produced an invalid text (harness)")
		c.note("invalid generated text: %q", text)
		return
	}
	kinds := map[string]bool{}
	depth := 0
	for _, d := range rd.Tree.Decls {
		kinds[d.Kind] = true
		if d.Rule != nil {
			if x := exprDepth(d.Rule.RHS); x > depth {
				depth = x
			}
		}
	}
	if len(kinds) >= 2 || depth >= 3 {
		c.nontrivial(text)
	}
	bad := func(part, obs, exp string) {
		c.violate(violation{Sig: "", Case: name + "/" + part, Input: text, Observed: obs, Expected: exp})
	}
	// (a) generic tree
	var root parser.Node
	var err error
	pv, _ := safely(func() {
		p, e := eparser.New(fileName, strings.NewReader(text))
		if e != nil {
			err = e
			return
		}
		root, err = p.ParseAndBuildAST()
	})
	if pv != nil {
		c.inconclusive("panic (C14's business)")
		return
	}
	if err != nil || root == nil {
		bad("generic-tree", fmt.Sprintf("ParseAndBuildAST failed: %v", err), "a tree: the text is a valid specification")
		return
	}
	if m := compareGenericTree(root, rd.Root, rd.Scan.Toks); m != "" {
		bad("generic-tree", m, "leaves = significant tokens with positions, interior nodes = documented productions")
		return
	}
	c.count("generic_tree_leaves_checked", int64(len(rd.Scan.Toks)))
	// (b) typed tree
	ao := observeAST(text)
	if ao.Panic != "" {
		bad("typed-tree", "panic: "+ao.Panic, "a typed tree")
		return
	}
	if ao.Err != "" {
		// the only error the typed-tree builder may raise on a syntactically valid text is an unknown $NAME
		unknown := false
		for _, d := range rd.Tree.Decls {
			if d.Kind == "token" && d.ValKind == "PREDEF" && !documentedPredefs[d.Value] {
				unknown = true
			}
		}
		if !unknown {
			bad("typed-tree", "ast.Parse failed: "+ao.Err, "a typed tree")
		}
		return
	}
	got, want := astRender(ao.G, true), refRender(rd.Tree, rd.Scan.Toks, true)
	if got != want {
		bad("typed-tree", firstDiffLine(got, want), "the declarations, operators, nesting, operand order and positions that were written")
		return
	}
	c.count("typed_trees_compared", 1)
	// (c) round trip through the harness' unparser
	back := astToGrammar(ao.G)
	printed := ""
	pvp, _ := safely(func() { printed = canonicalText(back) })
	if pvp != nil {
		bad("round-trip", fmt.Sprintf("typed tree cannot be printed as EBNF: %v\n%s", pvp, astRender(ao.G, false)), "a tree that corresponds to some EBNF text")
		return
	}
	a2 := observeAST(printed)
	if a2.Err != "" || a2.Panic != "" {
		bad("round-trip", fmt.Sprintf("printed text %q does not parse: %s %s", printed, a2.Err, a2.Panic), "parses again")
		return
	}
	if x, y := astRender(ao.G, false), astRender(a2.G, false); x != y {
		bad("round-trip", "tree of the printed text differs: "+firstDiffLine(y, x)+" ; printed text: "+printed, "an equal tree")
		return
	}
	a3 := observeAST(printed)
	if a3.G != nil && (!a2.G.Equal(a3.G) || !a3.G.Equal(a2.G)) {
		bad("round-trip", "Equal() is false for two parses of the same text "+printed, "true")
		return
	}
	if a2.G.Equal(ao.G) && printed != text && len(rd.Scan.Toks) > 3 && astRender(ao.G, true) != astRender(a2.G, true) {
		bad("round-trip", "Equal() is true for trees whose positions differ", "positions are part of equality")
		return
	}
	c.count("round_trips", 1)
	// (d) grammar derived from the typed tree = the one spec.Parse derives
	if wellFormed && c01Sig(rd.Tree) == "" {
		o := observeSpec(text)
		if o.Err == "" && o.Panic == "" {
			const k = 4
			tt := newTermTab()
			fromTree := ebnfLanguages(back, k, tt)
			direct := cfgLanguages(o.Prods, k, tt)
			for _, r := range allRules(back) {
				if s, ok := langMinus(fromTree[r.LHS], direct[r.LHS]); ok {
					bad("grammar", fmt.Sprintf("typed tree lets %s derive %q, the directly derived grammar does not", r.LHS, tt.show(s)), "same grammar")
					return
				}
				if s, ok := langMinus(direct[r.LHS], fromTree[r.LHS]); ok {
					bad("grammar", fmt.Sprintf("directly derived grammar lets %s derive %q, the typed tree does not", r.LHS, tt.show(s)), "same grammar")
					return
				}
			}
			// definitions and precedence levels
			nTok, nDir := 0, 0
			for _, d := range back.Decls {
				if d.Kind == "token" {
					nTok++
				}
				if d.Kind == "directive" {
					nDir++
				}
			}
			if nDir != len(o.Prec) {
				bad("grammar", fmt.Sprintf("typed tree has %d directives, spec.Parse recorded %d levels", nDir, len(o.Prec)), "same")
				return
			}
			c.count("grammars_compared", 1)
		}
	}
	if c.res.Evaluations%331 == 1 {
		c.sample(map[string]any{"text": text, "typed_tree": astRender(ao.G, false)})
	}
}

func firstDiffLine(got, want string) string {
	g, w := strings.Split(got, "\n"), strings.Split(want, "\n")
	for i := 0; i < len(g) || i < len(w); i++ {
		x, y := "", ""
		if i < len(g) {
			x = g[i]
		}
		if i < len(w) {
			y = w[i]
		}
		if x != y {
			return fmt.Sprintf("line %d: got %q, expected %q", i+1, x, y)
		}
	}
	return "same"
}

func runC11(c *ctx) {
	r := c.rng("specs")
	// hand-written corner cases
	corner := []string{
		"grammar g", "grammar g;", "grammar g\n", "grammar g; TK = \"x\"", "grammar g; @left \"a\" TK", "grammar g; a = ;", "grammar g; a = | ;", "grammar g; a = b | ;",
		"grammar g; a = (b | c) | ;", "grammar g; a = b | | ;", "grammar g; a = b | | c ;", "grammar g; a = [(b | c) |] ;", "grammar g; a = ((b)) ;", "grammar g; a = (b c) d (e | f) ;", "grammar g; a = b (c d) ;",
		"grammar g; a = (b | c) | d ;", "grammar g; a = b | (c | d) ;", "grammar g; @left <a = (b | c) | > \"x\" <a = > ;", "grammar g; T = $ID; U = $COMMENT", "grammar g; a = \"x\\\"y\" \"\\\\\" ;",
		"grammar g;\nstart = NUM //\t| start PLUS NUM\n;\n", "grammar g; // c\t c\n a = b ; /* x\ty */", "grammar g; a = {{ [ { ( b ) } ] }} ;",
	}
	for i, t := range corner {
		if c.mineIdx(i) {
			c11Check(c, fmt.Sprintf("corner%d", i), t, false)
		}
	}
	n := c.n(12000, 400000)
	for i := 0; i < n; i++ {
		var g *rgrammar
		wf := i%3 == 0
		if wf {
			g = genWellFormedSpec(r, wfOpts{nNT: 1 + r.intn(3), nTok: r.intn(3), nStr: 2 + r.intn(3), nExtraRules: r.intn(2), nDirectives: r.intn(3), depth: 1 + r.intn(3), ruleHandles: true})
		} else {
			g = genSyntacticSpec(r, r.intn(6), 1+r.intn(8))
		}
		semiMask := r.u64()
		toks := specTokens(g, func(k int) bool { return semiMask>>(uint(k)%60)&1 == 1 })
		text := layoutTokens(toks, r, layout{seps: sepVaried, tight: r.chance(1, 3), comments: r.chance(1, 3), finalNL: r.chance(2, 3)})
		if c.mine() {
			c11Check(c, fmt.Sprintf("spec%d", i), text, wf)
		}
	}
	// deep and long
	idx := 0
	for _, d := range []int{300, 700, 1200, 2600} {
		for _, t := range []string{
			"grammar g; start = " + strings.Repeat("\"a\" | ", d) + "b ;\n",
			"grammar g; start = " + strings.Repeat("{ ", d) + "x" + strings.Repeat(" }", d) + " ;\n",
		} {
			if c.mineIdx(idx) {
				c11Check(c, fmt.Sprintf("deep%d", d), t, false)
				c.count("long_or_deep_texts", 1)
			}
			idx++
		}
	}
}

// ---------------------------------------------------------------------------------------------- C13

var posAnyRe = posRe

type c13Base struct {
	name  string
	toks  []gtok
	valid bool
}

// outcome renders everything emerge derives from a text, with positions in diagnostics replaced by the index of the
// token they point to (so that it is comparable across layouts) - and returns the raw positions for the absolute check.
func c13Outcome(text string) (rendering string, panicked bool) {
	o := observeSpec(text)
	if o.Panic != "" {
		return "", true
	}
	a := observeAST(text)
	if a.Panic != "" {
		return "", true
	}
	sc := refScan(text)
	norm := func(msg string) string {
		return posAnyRe.ReplaceAllStringFunc(msg, func(m string) string {
			sub := posAnyRe.FindStringSubmatch(m)
			for i, t := range sc.Toks {
				if fmt.Sprint(t.Line) == sub[1] && fmt.Sprint(t.Col) == sub[2] {
					return fmt.Sprintf("<token#%d>", i)
				}
			}
			if sc.Err && fmt.Sprint(sc.ErrLn) == sub[1] && fmt.Sprint(sc.ErrCol) == sub[2] {
				return fmt.Sprintf("<stray-after-token#%d>", len(sc.Toks))
			}
			return "<position-of-no-token " + m + ">"
		})
	}
	var b strings.Builder
	if o.Err != "" {
		b.WriteString("spec.Parse: ERROR " + norm(o.Err) + "\n")
	} else {
		b.WriteString("spec.Parse:\n" + o.render())
	}
	if a.Err != "" {
		b.WriteString("ast.Parse: ERROR " + norm(a.Err) + "\n")
	} else {
		b.WriteString("ast.Parse:\n" + astRender(a.G, false))
	}
	return b.String(), false
}

// chunkedReader delivers its text in portions of the given sizes (cyclically), like a pipe, a terminal or a decompressor.
type chunkedReader struct {
	text  string
	sizes []int
	pos   int
	k     int
}

func (r *chunkedReader) Read(p []byte) (int, error) {
	if r.pos >= len(r.text) {
		return 0, io.EOF
	}
	n := r.sizes[r.k%len(r.sizes)]
	r.k++
	if n > len(p) {
		n = len(p)
	}
	if n > len(r.text)-r.pos {
		n = len(r.text) - r.pos
	}
	copy(p, r.text[r.pos:r.pos+n])
	r.pos += n
	if r.pos >= len(r.text) && r.k%2 == 0 {
		return n, io.EOF // the last bytes and the end of input in one call
	}
	return n, nil
}

// c13RenderVia parses a specification delivered by an arbitrary reader and renders the outcome.
func c13RenderVia(rd io.Reader) (string, bool) {
	var out string
	pv, _ := safely(func() {
		sp, err := spec.Parse(fileName, rd)
		if err != nil {
			out = "ERROR " + err.Error()
			return
		}
		var o specObs
		o.S = sp
		fillSpecObs(&o, sp)
		out = o.render()
	})
	return out, pv != nil
}

func runC13(c *ctx) {
	r := c.rng("bases")
	var bases []c13Base
	nValid := c.n(8, 24)
	for i := 0; i < nValid; i++ {
		g := genWellFormedSpec(r, wfOpts{nNT: 1 + r.intn(3), nTok: 1 + r.intn(3), nStr: 2 + r.intn(4), nExtraRules: r.intn(3), nDirectives: r.intn(3), depth: 1 + r.intn(3), ruleHandles: true})
		bases = append(bases, c13Base{fmt.Sprintf("valid%d", i), specTokens(g, nil), true})
	}
	// invalid bases: a syntax error, a stray element, an ill-formed specification
	{
		g := genWellFormedSpec(r, wfOpts{nNT: 2, nTok: 2, nStr: 3, nExtraRules: 1, nDirectives: 1, depth: 2})
		t := specTokens(g, nil)
		mid := len(t) / 2
		syn := append(append(append([]gtok{}, t[:mid]...), gtok{")", ")"}, gtok{"=", "="}), t[mid:]...)
		bases = append(bases, c13Base{"syntax-error", syn, false})
		lexb := append(append(append([]gtok{}, t[:mid]...), gtok{"STRAY", "#"}), t[mid:]...)
		bases = append(bases, c13Base{"lexical-error", lexb, false})
		g2 := cloneGrammar(g)
		appendToRule(firstRule(g2, r), tokE("UNDEFINED"))
		bases = append(bases, c13Base{"ill-formed", specTokens(g2, nil), false})
	}
	checkVariant := func(name, base, text string, nontrivial bool) {
		c.eval()
		got, panicked := c13Outcome(text)
		if panicked {
			c.inconclusive("panic (C14's business)")
			return
		}
		if nontrivial {
			c.nontrivial(text)
		}
		if got != base {
			c.violate(violation{Case: name, Input: text, Observed: "result differs from the canonical layout's: " + firstDiffLine(got, base), Expected: "identical grammar, definitions, precedences, typed tree and verdict: only the layout changed"})
			return
		}
		// absolute token positions on this variant
		ref := refScan(text)
		if ref.Masked {
			return
		}
		sc := emergeScan(text)
		if d, exp := compareScan(text, ref, sc); d != "" {
			c.violate(violation{Case: name + "/positions", Input: text, Observed: d, Expected: exp})
			return
		}
		c.count("token_positions_checked", int64(len(sc.Toks)))
		if c.res.Evaluations%701 == 1 {
			t := text
			if len(t) > 300 {
				t = t[:120] + fmt.Sprintf(" …(%d bytes)… ", len(text)-240) + t[len(t)-120:]
			}
			c.sample(map[string]any{"variant": name, "text": t, "tokens": len(sc.Toks), "same_result_as_canonical_layout": true})
		}
	}
	for bi, b := range bases {
		canon := layoutTokens(b.toks, nil, layout{finalNL: true})
		base, panicked := c13Outcome(canon)
		if panicked {
			c.inconclusive("panic on a base (C14's business)")
			continue
		}
		if b.valid && strings.Contains(base, "spec.Parse: ERROR") {
			c.inconclusive("well-formed base rejected (C07's business)")
			c.note("base rejected: %q -> %s", canon, firstLines(base, 4))
			continue
		}
		// (0) the same text delivered in portions: one byte at a time, in halves, in odd sizes, one full buffer and then
		// crumbs; short and long (padded beyond 64 KiB, the capacity of a pipe)
		if bi < c.n(6, 40) {
			for ti, text := range []string{canon, "// " + strings.Repeat("padding ", 9000) + "\n" + canon, canon + strings.Repeat("\n", 5000)} {
				whole, p0 := c13RenderVia(strings.NewReader(text))
				if p0 {
					continue
				}
				for si, sizes := range [][]int{{1}, {2, 3}, {4096, 1}, {4095}, {4096}, {4097, 5}, {1 << 16, 7}, {len(text)/2 + 1}, {len(text) - 1, 1}} {
					if !c.mine() {
						continue
					}
					c.eval()
					got, pv := c13RenderVia(&chunkedReader{text: text, sizes: sizes})
					c.count("deliveries_in_portions", 1)
					c.nontrivial(fmt.Sprintf("%s/portions/%d/%d", b.name, ti, si))
					if pv {
						c.inconclusive("panic (C14's business)")
						continue
					}
					if got != whole {
						c.violate(violation{Case: fmt.Sprintf("%s/portions%d.%d", b.name, ti, si), Input: map[string]any{"text_bytes": len(text), "text_head": firstLines(canon, 3), "portion_sizes": sizes},
							Observed: "delivered in portions: " + firstDiffLine(got, whole), Expected: "the same result as when the text is delivered at once"})
					}
				}
			}
		}
		// (i) layouts. Optional semicolons: toggled on the typed level is not possible from tokens; instead drop/keep each
		// ';' that directly follows a token declaration / name / directive when the reference still reads the same tree.
		nLay := c.n(60, 400)
		for li := 0; li < nLay; li++ {
			lr := newRng(c.seed, fmt.Sprintf("C13/%d/%d", bi, li))
			toks := b.toks
			if b.valid && lr.chance(1, 2) {
				toks = dropOptionalSemis(toks, lr)
			}
			text := layoutTokens(toks, lr, layout{seps: sepVaried, tight: lr.chance(1, 3), comments: lr.chance(1, 2), finalNL: lr.chance(1, 2), lead: pick(lr, []string{"", " ", "\n\n", "// lead\t!\n", "/* lead */"})})
			if c.mine() {
				checkVariant(fmt.Sprintf("%s/layout%d", b.name, li), base, text, true)
			}
		}
		// (ii) padding sweep
		sweepBases := c.n(2, 12)
		if bi >= sweepBases && b.valid {
			continue
		}
		if !b.valid && c.quick() && b.name != "syntax-error" {
			continue
		}
		maxP := 2*4096 + 64
		if c.thorough() && bi < 3 {
			maxP = 5*4096 + 64
		}
		places := []int{0, len(b.toks) / 2, len(b.toks) - 1}
		for pi, place := range places {
			for p := 0; p <= maxP; p++ {
				if c.quick() && !c13QuickPad(p) {
					continue
				}
				if !c.mine() {
					continue
				}
				kindsOfPad := []string{strings.Repeat(" ", p)}
				if p%7 == 3 || (p > 4000 && p < 4200) || (p > 8100 && p < 8300) {
					kindsOfPad = append(kindsOfPad, "/*"+strings.Repeat("x", p)+"*/", strings.Repeat("\n", p))
					if p <= 600 {
						// many short comment lines (each skipped token costs emerge one level of recursion: kept small)
						kindsOfPad = append(kindsOfPad, strings.Repeat("//\tc\n", p/5)+strings.Repeat(" ", p%5))
					}
				}
				for ki, pad := range kindsOfPad {
					var sb strings.Builder
					for i, t := range b.toks {
						if i > 0 {
							sb.WriteString(" ")
						}
						if i == place {
							sb.WriteString(pad)
							sb.WriteString(" ")
						}
						sb.WriteString(t.Text)
					}
					text := sb.String()
					if (p+pi)%2 == 0 {
						text += "\n"
					}
					checkVariant(fmt.Sprintf("%s/pad%d@%d/%d", b.name, p, place, ki), base, text, true)
					c.count("padding_sweep_steps", 1)
				}
			}
		}
	}
	// very large files: padding far beyond any buffer (tens of KiB to 1 MiB) before, between and after declarations
	for bi, b := range bases {
		if !b.valid || bi >= c.n(2, 6) {
			continue
		}
		canon := layoutTokens(b.toks, nil, layout{finalNL: true})
		base, panicked := c13Outcome(canon)
		if panicked || strings.Contains(base, "spec.Parse: ERROR") {
			continue
		}
		var sizes []int
		for p := 65536 - 300; p <= 65536+40; p += 7 {
			sizes = append(sizes, p)
		}
		sizes = append(sizes, 20000, 40000, 70000, 100000, 131072-33, 131072+5, 262144+1, 1<<20)
		for _, p := range sizes {
			for pi, place := range []int{0, len(b.toks) / 2, len(b.toks) - 1} {
				if !c.mine() {
					continue
				}
				pad := strings.Repeat(" ", p)
				switch (p + pi) % 3 {
				case 1:
					pad = strings.Repeat("          \n", p/11) + strings.Repeat(" ", p%11)
				case 2:
					pad = "/*" + strings.Repeat("c", p) + "*/"
				}
				var sb strings.Builder
				for i, t := range b.toks {
					if i > 0 {
						sb.WriteString(" ")
					}
					if i == place {
						sb.WriteString(pad + " ")
					}
					sb.WriteString(t.Text)
				}
				checkVariant(fmt.Sprintf("%s/bigpad%d@%d", b.name, p, place), base, sb.String()+"\n", true)
				c.count("very_large_texts", 1)
			}
		}
	}
	c.exhaustive("every_padding_0_to_2x4096_plus_64_at_3_places_for_the_swept_bases", true)
}

// dropOptionalSemis removes some semicolons that the grammar makes optional (after the name, a token declaration
// or a directive) - never the one that ends a rule, and never one before a token declaration that follows a directive.
func dropOptionalSemis(toks []gtok, r *rng) []gtok {
	var out []gtok
	// classify declarations by scanning: a ';' is a rule terminator iff the declaration started with IDENT '='
	declStart := 0
	for i := 0; i < len(toks); i++ {
		t := toks[i]
		if t.Kind != ";" {
			out = append(out, t)
			continue
		}
		first := toks[declStart]
		isRule := first.Kind == "IDENT" && declStart+1 < len(toks) && toks[declStart+1].Kind == "="
		isDirective := first.Kind == "@left" || first.Kind == "@right" || first.Kind == "@none"
		nextIsToken := i+2 < len(toks) && toks[i+1].Kind == "TOKEN" && toks[i+2].Kind == "="
		// inside a <rule> handle there is no ';' so any ';' closes the declaration
		keep := isRule || (isDirective && nextIsToken) || !r.chance(1, 2)
		if keep {
			out = append(out, t)
		}
		declStart = i + 1
	}
	return out
}

// c13QuickPad: the quick tier sweeps every padding in windows below each buffer-size multiple (where a token that follows
// the padding straddles the boundary) and every 8th padding elsewhere; the thorough tier sweeps every padding.
func c13QuickPad(p int) bool {
	if true {
		return true // the sweep is cheap since the specification reader is linear: every padding in both tiers
	}
	if p <= 64 || p%8 == 0 {
		return true
	}
	for _, b := range []int{2048, 4096, 6144, 8192} {
		if p >= b-300 && p <= b+20 {
			return true
		}
	}
	return false
}

func init() {
	auxCommands["c13time"] = func(args []string) int {
		for _, pad := range []string{strings.Repeat(" ", 8000), "/*" + strings.Repeat("x", 8000) + "*/", strings.Repeat("\n", 8000), strings.Repeat("//\tc\n", 1600)} {
			text := "grammar g ; " + pad + " start = \"a\" ;\n"
			for _, f := range []struct {
				n string
				f func()
			}{
				{"observeSpec", func() { observeSpec(text) }},
				{"observeAST", func() { observeAST(text) }},
				{"refScan", func() { refScan(text) }},
				{"emergeScan", func() { emergeScan(text) }},
				{"c13Outcome", func() { c13Outcome(text) }},
			} {
				t0 := time.Now()
				for i := 0; i < 20; i++ {
					f.f()
				}
				fmt.Println(f.n, time.Since(t0)/20)
			}
		}
		return 0
	}
}

func init() {
	auxCommands["scale"] = func(args []string) int {
		for _, n := range []int{2000, 4000, 8000, 16000} {
			text := "grammar g ; " + strings.Repeat("          \n", n) + " start = \"a\" ;\n"
			t0 := time.Now()
			emergeScan(text)
			t1 := time.Now()
			observeSpec(text)
			t2 := time.Now()
			fmt.Println(n, "lines: scan", t1.Sub(t0), "spec.Parse", t2.Sub(t1))
		}
		return 0
	}
}

package main

// C06 - the LALR(1) table emerge builds for a user grammar parses exactly its language, per the directives;
// unresolved conflicts are reported, LALR(1) grammars are never rejected.

import (
	"fmt"
	"os"
	"regexp"
	"sort"
	"strings"

	"github.com/moorara/algo/grammar"
	"github.com/moorara/algo/parser/lr"
)

func init() {
	register(&property{
		id:    "C06",
		level: "exploration",
		rule: "specifications: the textbook families by name (SLR expression grammars, the LALR-not-SLR grammar S->L=R|R, the LR(1)-not-LALR grammar S->aAd|bBd|aBe|bAe, dangling else, E->E+E with and without directives, epsilon-heavy lists, LALR-not-SLR grammars with directives naming the conflict symbols), seeded random grammars (<= 5 non-terminals, <= 10 productions, <= 4 terminals, with EBNF operators), " +
			"and operator grammars e = e op e | pre e | \"(\" e \")\" | NUM with random precedence tables (levels, left/right, arbitrary split, some operators left out). For each: emerge's LALRParsingTable() result is observed; (a) accepted: the standard shift-reduce driver runs EMERGE'S table on ALL terminal strings up to a length bound and accept must equal membership in the bounded language of the productions; " +
			"(b) operator grammars: the tree built from emerge's table must equal an independent Pratt parse for random expressions; (c) accepted <=> an independent LALR(1) construction with the documented resolution rule leaves no conflict; a rejection must report conflicts (kind, terminal) that the reference also has. non-trivial = accepted with >= 3 sentences <= k, or rejected with the reference exhibiting the conflict; distinct by text.",
		assumptions: []string{
			"the grammar and precedence levels are taken as emerge recorded them (their derivation from the text is C01's and C12's business)",
			"conflicts among more than two actions are masked (the documented rule does not say how pairwise verdicts combine)",
		},
		floorQuick: 300, floorThorough: 5000,
		run: runC06,
	})
}

// lrTableFuncs adapts the library's *lr.ParsingTable (as returned by emerge) to the generic driver.
func lrTableFuncs(T *lr.ParsingTable) (tableFuncs, func(i int) cprod) {
	var reg []cprod
	idx := map[string]int{}
	return tableFuncs{
			action: func(s int, a string) (byte, int, bool) {
				t := grammar.Terminal(a)
				if a == "" {
					t = grammar.Endmarker
				}
				act, err := T.ACTION(lr.State(s), t)
				if err != nil || act == nil {
					return 0, 0, false
				}
				switch act.Type {
				case lr.SHIFT:
					return 's', int(act.State), true
				case lr.REDUCE:
					cp := prodObs(act.Production)
					k := cp.String()
					i, ok := idx[k]
					if !ok {
						i = len(reg)
						idx[k] = i
						reg = append(reg, cp)
					}
					return 'r', i, true
				case lr.ACCEPT:
					return 'a', 0, true
				}
				return 0, 0, false
			},
			gotoF: func(s int, nt string) (int, bool) {
				n, err := T.GOTO(lr.State(s), grammar.NonTerminal(nt))
				if err != nil {
					return 0, false
				}
				return int(n), true
			},
			prod: func(i int) (string, int) { return reg[i].Head, len(reg[i].Body) },
		}, func(i int) cprod {
			return reg[i]
		}
}

var reConflict = regexp.MustCompile(`(Shift/Reduce|Reduce/Reduce) conflict in ACTION\[(\d+), ("(?:[^"\\]|\\.)*"|\$)\]`)

func refGrammarOf(o specObs) (*cgrammar, []precLevel) {
	var terms []string
	for _, t := range o.Terms {
		terms = append(terms, "t:"+t)
	}
	g := newCGrammar(terms, o.NTs, o.Prods, o.Start)
	pidx := map[string]int{}
	for i, p := range o.Prods {
		pidx[p.String()] = i
	}
	var prec []precLevel
	for _, l := range o.Prec {
		pl := precLevel{Assoc: strings.TrimPrefix(l.Assoc, "@"), Terms: map[string]bool{}, ProdIdx: map[int]bool{}}
		for _, t := range l.Terms {
			pl.Terms["t:"+t] = true
		}
		for _, p := range l.PProd {
			if i, ok := pidx[p.String()]; ok {
				pl.ProdIdx[i] = true
			}
		}
		prec = append(prec, pl)
	}
	return g, prec
}

func c06Check(c *ctx, name, text string, k int) (accepted bool, T *lr.ParsingTable, o specObs) {
	c.eval()
	o = observeSpec(text)
	if o.Panic != "" {
		c.inconclusive("panic (C14's business)")
		return
	}
	if o.Err != "" {
		c.inconclusive("specification rejected before table construction (C07's business)")
		c.note("spec.Parse rejected %q: %s", text, firstLines(o.Err, 3))
		return
	}
	var err error
	pv, stack := safely(func() { T, err = o.S.LALRParsingTable() })
	up := append(unproductive(o.Prods), cyclicNTs(o.Prods)...)
	if rd := refRead(text); len(up) > 0 && rd.Tree != nil && !rd.Scan.Masked && c01Sig(rd.Tree) == "" {
		// degenerate according to emerge's own productions: is the grammar AS WRITTEN degenerate too? If not, the
		// translation of the extended operators introduced the cycle / the useless non-terminal.
		if g2, _ := refTranslate(rd.Tree); len(unproductive(g2.Prods)) == 0 && len(cyclicNTs(g2.Prods)) == 0 {
			msg := "a table"
			if err != nil {
				msg = "rejected: " + firstLines(err.Error(), 3)
			}
			c.violate(violation{Case: name, Input: text, Observed: fmt.Sprintf("emerge's productions have degenerate non-terminals %v (%s)", up, msg),
				Expected: "the grammar as written has no cyclic or unproductive non-terminal (translated the textbook way): its productions must not have one either", Note: "productions: " + prodsOf(o.Prods)})
			return false, nil, o
		}
	}
	if len(up) > 0 {
		// textbook LR constructions presume a reduced grammar; a non-terminal that derives no terminal string is outside
		// what the property's "LALR(1) grammar" speaks about. Not judged here (a crash on such input is C14's).
		c.masked()
		c.count("masked_degenerate_grammars_unproductive_or_cyclic", 1)
		if pv != nil {
			c.count("panics_on_degenerate_grammars", 1)
		}
		return false, nil, o
	}
	if pv != nil {
		c.inconclusive("panic (C14's business)")
		c.note("panic in LALRParsingTable for %q: %v %s", text, pv, firstLines(stack, 6))
		return
	}
	g, prec := refGrammarOf(o)
	ref := buildLALR(g, prec)
	if ref.multiway > 0 {
		c.masked()
		return
	}
	c.count("reference_lalr_states", int64(ref.nstates))
	bad := func(obs, exp string) {
		c.violate(violation{Case: name, Input: text, Observed: obs, Expected: exp, Note: "productions: " + prodsOf(o.Prods) + " ; levels: " + renderPrec(o.Prec)})
	}
	// the grammar AS WRITTEN, translated independently: an LALR(1) grammar must not be rejected because of the way the
	// extended operators were expanded (e.g. two synthesised rules for one alternation written in two orders)
	if rd := refRead(text); err != nil && rd.Tree != nil && !rd.Scan.Masked && c01Sig(rd.Tree) == "" && len(ref.unresolved) > 0 {
		g2, prec2 := refTranslate(rd.Tree)
		if len(unproductive(g2.Prods)) == 0 && len(cyclicNTs(g2.Prods)) == 0 {
			ref2 := buildLALR(g2, prec2)
			c.count("rejections_cross_checked_with_an_independent_translation", 1)
			if ref2.multiway == 0 && len(ref2.unresolved) == 0 {
				bad("rejected: "+firstLines(err.Error(), 5), fmt.Sprintf("accepted: translated the textbook way (one rule per operator and set of alternatives) the grammar as written is LALR(1) (%d states, %d conflicts decided by directives, none left)", ref2.nstates, ref2.decided))
				return
			}
		}
	}
	if err != nil {
		c.count("rejected", 1)
		msg := err.Error()
		if len(ref.unresolved) == 0 {
			bad("rejected: "+firstLines(msg, 4), fmt.Sprintf("accepted: the grammar is LALR(1) under its directives (reference: %d states, %d conflicts decided by directives, none left)", ref.nstates, ref.decided))
			return
		}
		c.nontrivial(text)
		ms := reConflict.FindAllStringSubmatch(msg, -1)
		if !strings.Contains(msg, "Ambiguous Grammar") || !strings.Contains(msg, "cannot decide whether to") && len(ms) == 0 {
			bad("rejected without a conflict report: "+firstLines(msg, 4), "a report naming the conflict")
			return
		}
		want := map[string]bool{}
		for _, u := range ref.unresolved {
			t := strings.TrimPrefix(u.Terminal, "t:")
			if u.Terminal == endMark {
				t = "$"
			} else {
				t = fmt.Sprintf("%q", t)
			}
			want[u.Kind+" "+t] = true
		}
		for _, m := range ms {
			c.count("conflicts_reported", 1)
			if !want[m[1]+" "+m[3]] {
				bad(fmt.Sprintf("reports a %s conflict on %s", m[1], m[3]), fmt.Sprintf("only conflicts the grammar has: %v", keysOfBool(want)))
				return
			}
		}
		return
	}
	if T == nil {
		bad("nil table without error", "a table or an error")
		return
	}
	c.count("accepted", 1)
	accepted = true
	if len(ref.unresolved) > 0 {
		u := ref.unresolved[0]
		bad("accepted", fmt.Sprintf("rejected: %s conflict in the LALR(1) automaton on %s between %v that no directive decides", u.Kind, u.Terminal, describeActs(g, u.Actions)))
		return
	}
	// (a) language. Without any conflict the table must accept exactly the sentences of the grammar. When directives
	// decided conflicts, the resolution itself may legitimately remove sentences (a conflict that is not an ambiguity),
	// so emerge's table is compared with the reference table resolved by the documented rule instead.
	tt := newTermTab()
	langs := cfgLanguages(o.Prods, k, tt)
	L := langs[o.Start]
	// the sentences of the grammar AS WRITTEN (reference reader + operator-tree fixpoint), when the text is readable
	var written *rgrammar
	if rd := refRead(text); rd.Tree != nil && !rd.Scan.Masked && c01Sig(rd.Tree) == "" {
		written = rd.Tree
		L = ebnfLanguages(written, k, tt)["start"]
	}
	useRefTable := ref.decided > 0
	rtf := ref.funcs()
	if useRefTable {
		c.count("grammars_compared_with_reference_table", 1)
	} else {
		c.count("grammars_compared_with_cfg_language", 1)
	}
	if len(L) >= 3 {
		c.nontrivial(text)
	}
	tf, prodAt := lrTableFuncs(T)
	terms := o.Terms
	if iso, n, why := tablesIsomorphic(tf, prodAt, ref, terms, o.NTs); iso {
		c.count("tables_isomorphic_to_the_reference_table_hence_decided_for_all_strings", 1)
		c.count("table_entries_states_walked_in_lock_step", int64(n))
	} else {
		c.count("tables_not_isomorphic_to_the_reference_judged_on_strings_only", 1)
		c.note("not isomorphic (%s): %s", why, firstLines(text, 3))
	}
	kk := k
	for pow(len(terms), kk) > 8000 && kk > 2 {
		kk--
	}
	if kk < k {
		langs = cfgLanguages(o.Prods, kk, tt)
		L = langs[o.Start]
		if written != nil {
			L = ebnfLanguages(written, kk, tt)["start"]
		}
	}
	seq := make([]string, 0, kk)
	nStrings := 0
	var rec func() bool
	rec = func() bool {
		nStrings++
		enc := ""
		for _, s := range seq {
			enc += tt.id(s)
		}
		_, in := L[enc]
		if useRefTable {
			pre := make([]string, len(seq))
			for i, s := range seq {
				pre[i] = "t:" + s
			}
			_, in, _, _ = drive(rtf, pre)
		}
		_, ok, errAt, why := drive(tf, seq)
		if ok != in {
			obs := fmt.Sprintf("emerge's table rejects %q at token #%d (%s)", strings.Join(seq, " "), errAt, why)
			if ok {
				obs = fmt.Sprintf("emerge's table accepts %q", strings.Join(seq, " "))
			}
			exp := "a sentence of the grammar"
			if !in {
				exp = "not a sentence of the grammar"
			}
			if useRefTable {
				exp += " as parsed by the LALR(1) table resolved with the documented precedence rule"
			}
			bad(obs, exp)
			return false
		}
		if len(seq) == kk {
			return true
		}
		for _, t := range terms {
			seq = append(seq, t)
			if !rec() {
				return false
			}
			seq = seq[:len(seq)-1]
		}
		return true
	}
	rec()
	c.count("strings_driven_through_emerge_tables", int64(nStrings))
	if c.res.Evaluations%37 == 1 {
		c.sample(map[string]any{"text": text, "sentences_le_k": len(L), "k": kk, "strings_driven": nStrings, "reference_states": ref.nstates})
	}
	return
}

// tablesIsomorphic walks emerge's table and the reference table in lock step from the initial states. When every
// reachable entry corresponds (same kind, same production, shift/goto to corresponding states) the two tables behave
// identically on EVERY input, not only on the strings up to the bound.
func tablesIsomorphic(tf tableFuncs, prodAt func(int) cprod, ref *lalrTable, terms, nts []string) (bool, int, string) {
	rtf := ref.funcs()
	e2r := map[int]int{0: 0}
	r2e := map[int]int{0: 0}
	queue := []int{0}
	pair := func(es, rs int) bool {
		if x, ok := e2r[es]; ok {
			return x == rs
		}
		if _, ok := r2e[rs]; ok {
			return false
		}
		e2r[es], r2e[rs] = rs, es
		queue = append(queue, es)
		return true
	}
	for len(queue) > 0 {
		es := queue[0]
		queue = queue[1:]
		rs := e2r[es]
		for _, a := range append([]string{""}, terms...) {
			ra := a
			if a != "" {
				ra = "t:" + a
			}
			ek, et, eok := tf.action(es, a)
			rk, rt, rok := rtf.action(rs, ra)
			if eok != rok {
				return false, len(e2r), fmt.Sprintf("ACTION[%d,%q] defined: %v, reference state %d: %v", es, a, eok, rs, rok)
			}
			if !eok {
				continue
			}
			if ek != rk {
				return false, len(e2r), fmt.Sprintf("ACTION[%d,%q] is %c, reference %c", es, a, ek, rk)
			}
			switch ek {
			case 's':
				if !pair(et, rt) {
					return false, len(e2r), fmt.Sprintf("ACTION[%d,%q] shifts to %d, which does not correspond to the reference's state %d", es, a, et, rt)
				}
			case 'r':
				if prodAt(et).String() != ref.g.Prods[rt].String() {
					return false, len(e2r), fmt.Sprintf("ACTION[%d,%q] reduces by %s, reference by %s", es, a, prodAt(et).String(), ref.g.Prods[rt].String())
				}
			}
		}
		for _, A := range nts {
			eg, eok := tf.gotoF(es, A)
			rg, rok := rtf.gotoF(rs, A)
			if eok != rok {
				if eok && !rok {
					// an entry the reference does not have can never be consulted (no reduction by A returns to this state)
					continue
				}
				return false, len(e2r), fmt.Sprintf("GOTO[%d,%s] defined: %v, reference: %v", es, A, eok, rok)
			}
			if eok && !pair(eg, rg) {
				return false, len(e2r), fmt.Sprintf("GOTO[%d,%s] = %d does not correspond to the reference's %d", es, A, eg, rg)
			}
		}
	}
	// states that a decided conflict made unreachable are not walked: they can never be entered
	return true, len(e2r), ""
}

func pow(b, e int) int {
	r := 1
	for i := 0; i < e; i++ {
		r *= b
		if r > 1<<30 {
			return r
		}
	}
	return r
}

func keysOfBool(m map[string]bool) []string {
	var ks []string
	for k := range m {
		ks = append(ks, k)
	}
	sort.Strings(ks)
	return ks
}

func describeActs(g *cgrammar, acts []lrAction) string {
	var xs []string
	for _, a := range acts {
		switch a.Kind {
		case 's':
			xs = append(xs, "shift")
		case 'r':
			xs = append(xs, "reduce "+g.Prods[a.Target].String())
		}
	}
	return strings.Join(xs, " / ")
}

// refTranslate is an independent EBNF -> plain CFG translation of the text as written: one synthesised non-terminal
// per (operator, set of alternatives), expanded the textbook way (opt: x | eps; star: S x | eps; plus: P x | x).
func refTranslate(g *rgrammar) (*cgrammar, []precLevel) {
	var prods []cprod
	seenProd := map[string]bool{}
	ntSet := map[string]bool{}
	termSet := map[string]bool{}
	addProd := func(head string, body []string) {
		p := cprod{Head: head, Body: body}
		if !seenProd[p.String()] {
			seenProd[p.String()] = true
			prods = append(prods, p)
		}
		ntSet[head] = true
	}
	var alternatives func(e *rexpr) [][]string
	var symbolOf func(e *rexpr) []string
	symbolOf = func(e *rexpr) []string {
		switch e.Kind {
		case xNonTerm:
			ntSet[e.Name] = true
			return []string{e.Name}
		case xString, xToken:
			termSet["t:"+e.Name] = true
			return []string{"t:" + e.Name}
		case xGroup, xOpt, xStar, xPlus:
			inner := alternatives(e.Kids[0])
			var keys []string
			for _, a := range inner {
				keys = append(keys, strings.Join(a, " "))
			}
			sort.Strings(keys)
			keys = uniqStrings(keys)
			name := fmt.Sprintf("\x01%d<%s>", e.Kind, strings.Join(keys, "|"))
			for _, a := range inner {
				switch e.Kind {
				case xGroup, xOpt:
					addProd(name, a)
				case xStar:
					addProd(name, append([]string{name}, a...))
				case xPlus:
					addProd(name, append([]string{name}, a...))
					addProd(name, a)
				}
			}
			if e.Kind == xOpt || e.Kind == xStar {
				addProd(name, nil)
			}
			return []string{name}
		}
		return nil
	}
	alternatives = func(e *rexpr) [][]string {
		if e == nil {
			return [][]string{nil}
		}
		switch e.Kind {
		case xConcat:
			out := [][]string{nil}
			for _, k := range e.Kids {
				var next [][]string
				for _, a := range out {
					for _, b := range alternatives(k) {
						next = append(next, append(append([]string{}, a...), b...))
					}
				}
				out = next
			}
			return out
		case xAlt:
			var out [][]string
			for _, k := range e.Kids {
				out = append(out, alternatives(k)...)
			}
			return out
		case xEmpty:
			return [][]string{nil}
		}
		return [][]string{symbolOf(e)}
	}
	var prec []precLevel
	type pend struct {
		level int
		head  string
		alts  [][]string
	}
	var pending []pend
	for _, d := range g.Decls {
		switch d.Kind {
		case "rule":
			for _, a := range alternatives(d.Rule.RHS) {
				addProd(d.Rule.LHS, a)
			}
		case "token":
			termSet["t:"+d.Name] = true
		case "directive":
			pl := precLevel{Assoc: strings.TrimPrefix(d.Assoc, "@"), Terms: map[string]bool{}, ProdIdx: map[int]bool{}}
			for _, h := range d.Handles {
				if h.IsRule {
					alts := alternatives(h.Rule.RHS)
					for _, a := range alts {
						addProd(h.Rule.LHS, a)
					}
					pending = append(pending, pend{len(prec), h.Rule.LHS, alts})
				} else {
					pl.Terms["t:"+h.Term] = true
					termSet["t:"+h.Term] = true
				}
			}
			prec = append(prec, pl)
		}
	}
	idx := map[string]int{}
	for i, p := range prods {
		idx[p.String()] = i
	}
	for _, pe := range pending {
		for _, a := range pe.alts {
			if i, ok := idx[(cprod{Head: pe.head, Body: a}).String()]; ok {
				prec[pe.level].ProdIdx[i] = true
			}
		}
	}
	var terms, nts []string
	for t := range termSet {
		terms = append(terms, t)
	}
	for n := range ntSet {
		nts = append(nts, n)
	}
	sort.Strings(terms)
	sort.Strings(nts)
	return newCGrammar(terms, nts, prods, "start"), prec
}

// ---------------------------------------------------------------- operator grammars and the Pratt reference

type opLevel struct {
	assoc string // left | right
	ops   []string
}

type opCfg struct {
	levels []opLevel
	binops []string
	prefix string
}

func opSpecText(cfg opCfg) string {
	var b strings.Builder
	b.WriteString("grammar g\nNUM = /[0-9]/\n")
	for _, l := range cfg.levels {
		fmt.Fprintf(&b, "@%s", l.assoc)
		for _, o := range l.ops {
			fmt.Fprintf(&b, " %q", o)
		}
		b.WriteString("\n")
	}
	b.WriteString("start = e;\ne = ")
	for _, o := range cfg.binops {
		fmt.Fprintf(&b, "e %q e | ", o)
	}
	if cfg.prefix != "" {
		fmt.Fprintf(&b, "%q e | ", cfg.prefix)
	}
	b.WriteString("\"(\" e \")\" | NUM ;\n")
	return b.String()
}

type pratt struct {
	toks []string
	pos  int
	lvl  map[string]int
	asc  map[string]string
	pre  string
	n    int
}

func (p *pratt) peek() string {
	if p.pos < len(p.toks) {
		return p.toks[p.pos]
	}
	return "$"
}
func (p *pratt) bp(op string) int { return (p.n - p.lvl[op]) * 2 }

func (p *pratt) expr(min int) (string, bool) {
	var left string
	t := p.peek()
	switch {
	case t == "(":
		p.pos++
		in, ok := p.expr(0)
		if !ok || p.peek() != ")" {
			return "", false
		}
		p.pos++
		left = in
	case t == p.pre && p.pre != "":
		p.pos++
		operand, ok := p.expr(p.bp(t))
		if !ok {
			return "", false
		}
		left = "(" + t + operand + ")"
	case t == "NUM":
		p.pos++
		left = "NUM"
	default:
		return "", false
	}
	for {
		op := p.peek()
		if _, isop := p.lvl[op]; !isop || op == p.pre {
			break
		}
		b := p.bp(op)
		if b < min {
			break
		}
		p.pos++
		rmin := b
		if p.asc[op] == "left" {
			rmin = b + 1
		}
		right, ok := p.expr(rmin)
		if !ok {
			return "", false
		}
		left = "(" + left + op + right + ")"
	}
	return left, true
}

// renderOpTree renders a tree built by the driver in the same fully parenthesised form.
func renderOpTree(t *ptree) string {
	if t.Prod < 0 {
		return t.Sym
	}
	var parts []string
	for _, k := range t.Kids {
		parts = append(parts, renderOpTree(k))
	}
	switch {
	case t.Sym == "start":
		return parts[0]
	case t.Sym == "e" && len(parts) == 1:
		return parts[0]
	case t.Sym == "e" && len(parts) == 3 && t.Kids[0].Sym == "(":
		return parts[1]
	}
	return "(" + strings.Join(parts, "") + ")"
}

func genOpExpr(r *rng, ops []string, pre string, depth int) []string {
	atom := func() []string {
		switch {
		case depth < 3 && r.chance(1, 6):
			in := genOpExpr(r, ops, pre, depth+1)
			return append(append([]string{"("}, in...), ")")
		case pre != "" && r.chance(1, 4):
			return []string{pre, "NUM"}
		default:
			return []string{"NUM"}
		}
	}
	out := atom()
	for n := r.intn(6); n > 0; n-- {
		out = append(out, pick(r, ops))
		out = append(out, atom()...)
	}
	return out
}

func c06Operators(c *ctx, r *rng, idx int) {
	allops := []string{"+", "-", "*", "^", "&"}
	nops := 2 + r.intn(3)
	ops := shuffled(r, allops[:nops])
	cfg := opCfg{binops: ops}
	items := append([]string{}, ops...)
	if r.chance(1, 2) {
		cfg.prefix = "!"
		items = shuffled(r, append(items, "!"))
	}
	leaveOut := ""
	if r.chance(1, 5) {
		leaveOut = pick(r, ops)
	}
	for i := 0; i < len(items); {
		if items[i] == leaveOut {
			i++
			continue
		}
		if items[i] == cfg.prefix && cfg.prefix != "" {
			cfg.levels = append(cfg.levels, opLevel{"left", []string{cfg.prefix}})
			i++
			continue
		}
		l := opLevel{assoc: pick(r, []string{"left", "right"})}
		l.ops = append(l.ops, items[i])
		i++
		for i < len(items) && items[i] != cfg.prefix && items[i] != leaveOut && r.chance(1, 2) {
			l.ops = append(l.ops, items[i])
			i++
		}
		cfg.levels = append(cfg.levels, l)
	}
	text := opSpecText(cfg)
	accepted, T, _ := c06Check(c, fmt.Sprintf("opgrammar%d", idx), text, 4)
	if leaveOut != "" || !accepted || T == nil {
		return
	}
	lvl, asc := map[string]int{}, map[string]string{}
	for i, l := range cfg.levels {
		for _, o := range l.ops {
			lvl[o], asc[o] = i, l.assoc
		}
	}
	tf, _ := lrTableFuncs(T)
	for k := 0; k < c.n(150, 600); k++ {
		toks := genOpExpr(r, ops, cfg.prefix, 0)
		c.count("operator_expressions_compared", 1)
		tree, ok, errAt, why := drive(tf, toks)
		p := &pratt{toks: toks, lvl: lvl, asc: asc, pre: cfg.prefix, n: len(cfg.levels)}
		want, wok := p.expr(0)
		if wok && p.pos != len(toks) {
			wok = false
		}
		if !wok {
			continue
		}
		if !ok {
			c.violate(violation{Case: fmt.Sprintf("opgrammar%d/expr", idx), Input: map[string]string{"spec": text, "expression": strings.Join(toks, " ")},
				Observed: fmt.Sprintf("emerge's table rejects the expression at token #%d (%s)", errAt, why), Expected: "accepted, parsed as " + want})
			return
		}
		if got := renderOpTree(tree); got != want {
			c.violate(violation{Case: fmt.Sprintf("opgrammar%d/expr", idx), Input: map[string]string{"spec": text, "expression": strings.Join(toks, " ")},
				Observed: "parse " + got, Expected: want + " (earlier directive binds tighter; equal level: associativity as declared)"})
			return
		}
	}
}

// ---------------------------------------------------------------- named families

var c06Families = []struct{ name, text string }{
	{"slr-expr", "grammar g; ID = /[a-z]/; start = e; e = e \"+\" t | t; t = t \"*\" f | f; f = \"(\" e \")\" | ID;"},
	{"lalr-not-slr", "grammar g; ID = /[a-z]/; start = s; s = l \"=\" r | r; l = \"*\" r | ID; r = l;"},
	{"lr1-not-lalr", "grammar g; start = \"a\" x \"d\" | \"b\" y \"d\" | \"a\" y \"e\" | \"b\" x \"e\"; x = \"c\"; y = \"c\";"},
	{"dangling-else", "grammar g; start = s; s = \"if\" \"e\" \"then\" s | \"if\" \"e\" \"then\" s \"else\" s | \"x\";"},
	{"dangling-else-resolved", "grammar g; @right \"then\" \"else\"; start = s; s = \"if\" \"e\" \"then\" s | \"if\" \"e\" \"then\" s \"else\" s | \"x\";"},
	{"ambiguous-plus", "grammar g; start = e; e = e \"+\" e | \"n\";"},
	{"ambiguous-plus-left", "grammar g; @left \"+\"; start = e; e = e \"+\" e | \"n\";"},
	{"ambiguous-plus-right", "grammar g; @right \"+\"; start = e; e = e \"+\" e | \"n\";"},
	{"ambiguous-plus-none", "grammar g; @none \"+\"; start = e; e = e \"+\" e | \"n\";"},
	{"two-ops-one-listed", "grammar g; @left \"+\"; start = e; e = e \"+\" e | e \"*\" e | \"n\";"},
	{"two-ops", "grammar g; @left \"*\"; @left \"+\"; start = e; e = e \"+\" e | e \"*\" e | \"n\";"},
	{"juxtaposition", "grammar g; @left <e = e e>; @left \"a\" \"(\"; start = e; e = e e | \"a\" | \"(\" e \")\";"},
	{"juxtaposition-unlisted", "grammar g; start = e; e = e e | \"a\";"},
	{"eps-lists", "grammar g; start = {item} [\";\"]; item = \"a\" | \"b\" {\",\" \"b\"};"},
	{"eps-heavy", "grammar g; start = a b c; a = | \"a\"; b = | \"b\" b; c = [\"c\"] {\"d\"};"},
	{"reduce-reduce", "grammar g; start = a | b; a = \"x\"; b = \"x\";"},
	{"reduce-reduce-levels", "grammar g; @left <a = c> ; @left <b = c>; start = a \"1\" | b \"1\"; a = c; b = c; c = \"x\";"},
	{"lalr-not-slr-with-directives", "grammar g; @left \"c\" \"t\"; start = \"a\" y \"u\" | \"b\" y \"t\" | \"a\" \"c\" \"t\"; y = \"c\";"},
	{"lalr-not-slr-with-directives-2", "grammar g; @right \"t\" \"c\"; start = \"a\" y \"u\" | \"b\" y \"t\" | \"a\" \"c\" \"t\"; y = \"c\";"},
	{"alternation-in-two-orders", "grammar g; NUM = /[0-9]/; start = (\"+\" | \"-\") NUM | (\"-\" | \"+\") NUM \"!\";"},
	{"alternation-in-two-orders-opt", "grammar g; start = [\"a\" | \"b\"] \"x\" | [\"b\" | \"a\"] \"y\";"},
	{"alternation-in-two-orders-star", "grammar g; start = {\"a\" | \"b\" \"c\"} \"x\" | {\"b\" \"c\" | \"a\"} \"y\";"},
	{"alternation-in-two-orders-handle", "grammar g; NUM = /[0-9]/; @left <e = e (\"+\" | \"-\") e>; start = e; e = e (\"-\" | \"+\") e | NUM;"},
	{"juxtaposition-ebnf-like", "grammar g; @left <e = e e>; @left \"a\" \"(\"; @right \"|\"; start = e; e = e e | e \"|\" e | \"a\" | \"(\" e \")\";"},
	{"kernel-contained-in-another-kernel-minimal", "grammar g; start = \"y\" \"x\" \"z\" | \"y\" a | a; a = \"x\";"},
	{"kernel-contained-rand4689", "grammar g;\nstart = \"y\" \"x\" (\"z\" | start)  | (\"x\" | \"y\")  | \"y\" start ;\na = \"y\"  | {{d}} [b] \"y\"  | a (\"y\" | \"z\") {\"z\"} | ;\nb = (\"z\" | start) \"x\" \"x\" ;\nd = [\"x\"] {{\"y\"}} (\"z\" | d) ;\n"},
	{"kernel-contained-rand20705", "grammar g; @left \"z\" \"x\" \"z\" start = \"x\" (\"x\" | start) {\"x\"} ; b = [\"z\"] \"x\" ;"},
	{"kernel-contained-rand20421", "grammar g; @left \"x\" \"x\" start = \"x\" {{\"x\"}} (\"x\" | start) ;"},
	{"kernel-contained-rand36792", "grammar g; @right \"x\" start = \"x\" {{\"x\"}}  | {{\"x\"}}  | {{\"x\"}} | ; d = \"x\"  | [b] [\"x\"] {\"x\"} ; b = \"x\" {\"x\"} (\"x\" | \"x\")  | b (\"x\" | \"x\") {\"x\"}  | \"x\" ; c = \"x\" ;"},
	{"kernel-contained-wf3336", "grammar calc ; @right < start = tail tail > \"c\" ; start = [ tail \"!\" \"c\" | WS tail ] ; WS = \"do\" ; tail = \"!\" ;"},
	{"kernel-contained-rand25786", "grammar g; @left \"z\" \"z\" start = \"z\" (\"z\" | start) {\"z\"} ;"},
	{"kernel-contained-wf861", "grammar x9 ; start = \"then\" | ( \"then\" \"then\" factor | \"{{\" factor ) \"!\" | factor { \"{{\" factor \"then\" } ( \"{{\" \"!\" | factor factor start | factor \"then\" \"!\" ) ; factor = \"then\" ; @right \"then\" ; @none \"{{\" ;"},
	{"kernel-contained-wf5055", "grammar calc ; @right \"+\" < start = start genx > \"if\" ; genx = {{ \"+\" genx gen | gen }} \"if\" \"+\" ; gen = \"if\" \"if\" ; start = \"if\" ;"},
	{"parentheses-around-one-repetition", "grammar g; start = ( { \"x\" } ) \"y\";"},
	{"parentheses-around-one-option", "grammar g; start = ( [ \"x\" ] ) \"y\";"},
	{"parentheses-around-one-plus", "grammar g; start = ( {{ a }} ) \"y\"; a = \"x\";"},
	{"parentheses-around-parentheses", "grammar g; NUM = /[0-9]/; start = ( ( \"+\" | \"-\" ) ) NUM;"},
	{"option-around-group", "grammar g; start = [ ( \"x\" \"y\" ) ] \"z\";"},
	{"repetition-around-group-of-one", "grammar g; start = { ( \"x\" ) } \"y\";"},
	{"triple-nesting", "grammar g; start = ( [ ( { \"x\" } ) ] ) \"y\";"},
	{"group-of-generated-looking-rule", "grammar g; start = ( generic_star ) \"y\"; generic_star = \"x\" | generic_star \"x\";"},
	{"token-and-rule-alike-under-star", "grammar g; ID = \"i\"; start = \"let\" {ID} \"in\" {id} \";\"; id = \"j\";"},
	{"token-and-rule-alike-under-opt", "grammar g; NUMBER = /[0-9]/; start = [number] \"x\" [NUMBER] \"y\"; number = \"n\";"},
	{"keyword-and-rule-alike-in-one-state", "grammar g; start = \"k\" \"a\" | k \"a\" \"b\"; k = \"c\";"},
	{"keyword-and-rule-alike-call", "grammar g; ID = /[a-z]/; start = stmt; stmt = \"call\" ID \";\" | call \";\"; call = ID \"(\" \")\";"},
	{"keyword-and-rule-alike-under-group", "grammar g; start = (else) \"s\" (\"else\") \"t\"; else = \"e\";"},
	{"rule-sequence-vs-underscored-rule", "grammar g; start = [label stmt] \"s\" [label_stmt]; label = \"l\"; stmt = \"t\"; label_stmt = \"u\";"},
	{"comma-separated-arguments", "grammar g; start = \"f\" \"(\" args \")\"; args = args \",\" e | e; e = \"x\" | \"(\" e \")\";"},
	{"punctuation-terminals-as-lookaheads", "grammar g; start = l \";\" | l \",\" l \".\"; l = l \",\" i | i; i = \"'\" | \"(\" l \")\" | \"[\" l \";\" l \"]\";"},
	{"quote-and-backslash-terminals", "grammar g; start = s; s = s \"\\\"\" t | t; t = \"\\\\\" | \"(\" s \")\" | \", \" ;"},
	{"plus-over-alternation", "grammar g; start = {{ \"a\" | \"b\" }} \"c\";"},
	{"nested-closures", "grammar g; start = { [\"a\"] \"b\" } {{ (\"c\" | \"d\") }};"},
	{"left-and-right-recursion", "grammar g; start = l r; l = l \"a\" | \"a\"; r = \"b\" r | \"b\";"},
	{"unary-minus", "grammar g; @left \"!\"; @left \"*\"; @left \"-\"; start = e; e = e \"-\" e | e \"*\" e | \"!\" e | \"n\";"},
	{"palindromes", "grammar g; start = \"a\" start \"a\" | \"b\" start \"b\" | \"c\";"},
	{"not-lr", "grammar g; start = \"a\" start \"a\" | \"a\";"},
	{"prefix-sharing", "grammar g; start = \"a\" \"b\" \"c\" | \"a\" \"b\" \"d\" | \"a\" x; x = \"b\" \"e\";"},
}

// random small grammars written with EBNF operators
func genSmallGrammar(r *rng) string {
	return genSizedGrammar(r, []string{"a", "b", "c", "d"}, []string{"x", "y", "z", "w"}, 0, 3)
}

// genLargeGrammar: 6-10 non-terminals over 3-6 terminals; judged by the lock-step walk of the two tables (all strings) and
// by the strings up to a small bound.
func genLargeGrammar(r *rng) string {
	return genSizedGrammar(r, []string{"a", "b", "c", "d", "e", "f", "h", "i", "j"}, []string{"x", "y", "z", "w", "u", "v"}, 5, 4)
}

// genLLGrammar: every alternative of a rule starts with a different terminal and nothing is nullable, so the grammar is
// LL(1), hence LR(1) and (nearly always) LALR(1): many states, few rejections. A small share of EBNF operators is
// mixed in after the leading terminal.
func genLLGrammar(r *rng) string {
	nts := append([]string{"start"}, shuffled(r, []string{"a", "b", "c", "d", "e", "f", "h", "i", "j"})[:3+r.intn(6)]...)
	terms := shuffled(r, []string{"x", "y", "z", "w", "u", "v", "p", "q", ",", ";", ".", "'", "->"})[:3+r.intn(5)]
	var b strings.Builder
	b.WriteString("grammar g;\n")
	for _, n := range nts {
		fmt.Fprintf(&b, "%s = ", n)
		alts := 1 + r.intn(3)
		lead := shuffled(r, terms)
		for i := 0; i < alts && i < len(lead); i++ {
			if i > 0 {
				b.WriteString(" | ")
			}
			fmt.Fprintf(&b, "%q ", lead[i])
			for k := r.intn(4); k > 0; k-- {
				s := fmt.Sprintf("%q", pick(r, terms))
				if i > 0 && r.chance(1, 2) {
					s = pick(r, nts)
				}
				switch r.intn(14) {
				case 0:
					s = "{{" + s + "}}"
				case 1:
					s = "(" + s + " | " + fmt.Sprintf("%q", pick(r, terms)) + ")"
				}
				b.WriteString(s + " ")
			}
		}
		b.WriteString(";\n")
	}
	return b.String()
}

func genSizedGrammar(r *rng, ntPool, termPool []string, minNT, maxAlts int) string {
	nts := append([]string{"start"}, shuffled(r, ntPool)[:minNT+r.intn(len(ntPool)-minNT+1)]...)
	terms := shuffled(r, termPool)[:1+minNT/2+r.intn(len(termPool)-1-minNT/2)]
	var b strings.Builder
	b.WriteString("grammar g;\n")
	if r.chance(1, 3) {
		fmt.Fprintf(&b, "@%s", pick(r, []string{"left", "right"}))
		for _, t := range terms {
			if r.chance(1, 2) {
				fmt.Fprintf(&b, " %q", t)
			}
		}
		fmt.Fprintf(&b, " %q\n", terms[0])
	}
	sym := func() string {
		if r.chance(1, 2) {
			return pick(r, nts)
		}
		return fmt.Sprintf("%q", pick(r, terms))
	}
	for _, n := range nts {
		fmt.Fprintf(&b, "%s = ", n)
		alts := 1 + r.intn(maxAlts)
		trailingEmpty := r.chance(1, 4)
		for i := 0; i < alts; i++ {
			if i > 0 {
				b.WriteString(" | ")
			}
			n := 1 + r.intn(3)
			for k := n; k > 0; k-- {
				s := sym()
				if i == 0 || (n == 1 && !strings.HasPrefix(s, "\"")) {
					// keep the grammar reduced: the first alternative is made of terminals only, and no unit productions
					s = fmt.Sprintf("%q", pick(r, terms))
				}
				switch r.intn(9) {
				case 0:
					s = "[" + s + "]"
				case 1:
					s = "{" + s + "}"
				case 2:
					s = "{{" + s + "}}"
				case 3:
					s = "(" + s + " | " + sym() + ")"
				}
				b.WriteString(s + " ")
			}
		}
		if trailingEmpty {
			b.WriteString("| ")
		}
		b.WriteString(";\n")
	}
	return b.String()
}

func runC06(c *ctx) {
	k := c.n(6, 7)
	for i, f := range c06Families {
		if c.mineIdx(i) {
			c06Check(c, "family/"+f.name, f.text, k)
			c.setAdd("families", f.name)
		}
	}
	// the same bracket construct in a rule handle, in another rule and in the rule itself, in every declaration order
	// (the handle decides the conflicts of expr = expr (..) expr only if it names the production the rule yields)
	{
		names, texts := c12OrderTexts()
		for i := range texts {
			if c.mineIdx(i) {
				c06Check(c, "decl-"+names[i], texts[i], 4)
			}
		}
	}
	r := c.rng("random")
	n := c.n(2500, 150000)
	for i := 0; i < n; i++ {
		text := genSmallGrammar(r)
		if c.mine() {
			c06Check(c, fmt.Sprintf("rand%d", i), text, k)
		}
	}
	r3 := c.rng("large")
	for i := 0; i < c.n(600, 30000); i++ {
		text := genLargeGrammar(r3)
		if c.mine() {
			c06Check(c, fmt.Sprintf("large%d", i), text, 4)
		}
	}
	r4 := c.rng("ll")
	for i := 0; i < c.n(400, 30000); i++ {
		text := genLLGrammar(r4)
		if c.mine() {
			c06Check(c, fmt.Sprintf("ll%d", i), text, 4)
		}
	}
	// the grammars C01 generates (EBNF-heavy)
	r2 := c.rng("wellformed")
	for i := 0; i < c.n(600, 20000); i++ {
		g := genWellFormedSpec(r2, wfOpts{nNT: 1 + r2.intn(2), nTok: r2.intn(2), nStr: 2 + r2.intn(2), nExtraRules: r2.intn(2), nDirectives: r2.intn(3), depth: 1 + r2.intn(2), ruleHandles: true})
		if c.mine() {
			c06Check(c, fmt.Sprintf("wf%d", i), canonicalText(g), 5)
		}
	}
	// operator grammars
	nOps := c.n(192, 6000)
	for i := 0; i < nOps; i++ {
		rr := newRng(c.seed, fmt.Sprintf("C06/op/%d", i))
		if c.mineIdx(i) {
			c06Operators(c, rr, i)
		}
	}
}

// unproductive returns the non-terminals that cannot derive any string of terminals.
func unproductive(prods []cprod) []string {
	prod := map[string]bool{}
	heads := map[string]bool{}
	for _, p := range prods {
		heads[p.Head] = true
	}
	for changed := true; changed; {
		changed = false
		for _, p := range prods {
			if prod[p.Head] {
				continue
			}
			ok := true
			for _, s := range p.Body {
				if !strings.HasPrefix(s, "t:") && !prod[s] {
					ok = false
				}
			}
			if ok {
				prod[p.Head] = true
				changed = true
			}
		}
	}
	var out []string
	for h := range heads {
		if !prod[h] {
			out = append(out, h)
		}
	}
	sort.Strings(out)
	return out
}

// cyclicNTs returns the non-terminals A with A =>+ A (the grammar is then infinitely ambiguous or useless).
func cyclicNTs(prods []cprod) []string {
	nullable := map[string]bool{}
	for changed := true; changed; {
		changed = false
		for _, p := range prods {
			if nullable[p.Head] {
				continue
			}
			ok := true
			for _, s := range p.Body {
				if strings.HasPrefix(s, "t:") || !nullable[s] {
					ok = false
				}
			}
			if ok {
				nullable[p.Head] = true
				changed = true
			}
		}
	}
	edge := map[string]map[string]bool{}
	for _, p := range prods {
		for i, s := range p.Body {
			if strings.HasPrefix(s, "t:") {
				continue
			}
			rest := true
			for j, o := range p.Body {
				if j != i && (strings.HasPrefix(o, "t:") || !nullable[o]) {
					rest = false
				}
			}
			if rest {
				if edge[p.Head] == nil {
					edge[p.Head] = map[string]bool{}
				}
				edge[p.Head][s] = true
			}
		}
	}
	var out []string
	for a := range edge {
		seen := map[string]bool{}
		stack := []string{a}
		found := false
		for len(stack) > 0 && !found {
			x := stack[len(stack)-1]
			stack = stack[:len(stack)-1]
			for y := range edge[x] {
				if y == a {
					found = true
				}
				if !seen[y] {
					seen[y] = true
					stack = append(stack, y)
				}
			}
		}
		if found {
			out = append(out, a)
		}
	}
	sort.Strings(out)
	return out
}

func init() {
	// vh aux c06one <file with the specification> <tokens...>: trace emerge's table and the reference on one string.
	auxCommands["c06one"] = func(args []string) int {
		b, err := os.ReadFile(args[0])
		if err != nil {
			fmt.Println(err)
			return 2
		}
		text := string(b)
		o := observeSpec(text)
		fmt.Println("err:", o.Err, "panic:", o.Panic)
		fmt.Println("prods:", prodsOf(o.Prods))
		fmt.Println("prec:", renderPrec(o.Prec))
		T, err := o.S.LALRParsingTable()
		fmt.Println("table err:", err)
		g, prec := refGrammarOf(o)
		ref := buildLALR(g, prec)
		fmt.Printf("reference: states=%d decided=%d unresolved=%d multiway=%d\n", ref.nstates, ref.decided, len(ref.unresolved), ref.multiway)
		if T == nil {
			return 0
		}
		seq := args[1:]
		tf, prodAt := lrTableFuncs(T)
		states := []int{0}
		pos := 0
		for steps := 0; steps < 200; steps++ {
			a := ""
			if pos < len(seq) {
				a = seq[pos]
			}
			kind, target, found := tf.action(states[len(states)-1], a)
			fmt.Printf("  emerge: states=%v next=%q -> %c %d %v", states, a, kind, target, found)
			if !found {
				fmt.Println()
				break
			}
			if kind == 's' {
				states = append(states, target)
				pos++
				fmt.Println()
			} else if kind == 'r' {
				p := prodAt(target)
				fmt.Printf("  reduce %s", p.String())
				states = states[:len(states)-len(p.Body)]
				gt, ok := tf.gotoF(states[len(states)-1], p.Head)
				fmt.Printf("  goto(%d,%s)=%d %v\n", states[len(states)-1], p.Head, gt, ok)
				if !ok {
					break
				}
				states = append(states, gt)
			} else {
				fmt.Println()
				break
			}
		}
		pre := make([]string, len(seq))
		for i, s := range seq {
			pre[i] = "t:" + s
		}
		_, in, at, why := drive(ref.funcs(), pre)
		fmt.Println("reference table:", in, at, why)
		tt := newTermTab()
		L := cfgLanguages(o.Prods, len(seq), tt)[o.Start]
		enc := ""
		for _, s := range seq {
			enc += tt.id(s)
		}
		_, inL := L[enc]
		fmt.Println("in CFG language:", inL)
		if os.Getenv("C06_TABLE") != "" {
			fmt.Println(T.String())
		}
		return 0
	}
}

package main

// C17 - processing is a pure function of the text: no cross-run / cross-goroutine interference.
// (a) sequential histories in one process vs isolated baselines (fresh process per item)
// (b) concurrent parses under the Go race detector; race reports classified by owner

import (
	"bytes"
	"fmt"
	"github.com/gardenbed/emerge/internal/ebnf/parser/spec"
	"io"
	"os"
	"os/exec"
	"path/filepath"
	"regexp"
	"sort"
	"strconv"
	"strings"
	"sync"
	"sync/atomic"

	rast "github.com/gardenbed/emerge/internal/regex/parser/ast"
	"github.com/gardenbed/emerge/internal/regex/parser/nfa"
)

func init() {
	register(&property{
		id:    "C17",
		level: "exploration",
		rule: "(a) sequential histories: ~60 items (well-formed and ill-formed specifications with groups/options/repetitions, valid patterns, and invalid ones - semantically meaningless, syntactically incomplete, both at once) are processed in one process in several orders (identity, reversed, seeded shuffles, each item twice in a row, every invalid item directly before every k-th valid one); every result's canonical rendering must equal the ISOLATED baseline obtained in a fresh process that handles only that item. " +
			"(b) concurrent: under the Go race detector 16 goroutines x rounds process different items at the same time (barrier-started), several child processes; every race report is parsed and classified by owner = first frame outside the Go standard library and outside the harness on each stack; a report with an owner frame in github.com/gardenbed/emerge is a violation; " +
			"results and recovered panics are compared with the baselines only when the run logged no dependency-owned race (otherwise they cannot be attributed: inconclusive for that clause). non-trivial = operation executed while >= 1 other goroutine was inside an entry point (measured by an in-flight counter), or history position > 0; distinct by (item, order/round).",
		assumptions: []string{
			"the race detector sees the interleavings the scheduler produced in these runs, not all interleavings",
			"open finding D16: the dependency's package-level hash functions share one hasher; reports whose owner frames are all in github.com/moorara/algo are attributed to it",
		},
		floorQuick: 300, floorThorough: 3000,
		serial: true,
		run:    runC17,
	})
	auxCommands["c17one"] = c17One
	auxCommands["c17conc"] = c17Conc
}

type c17Item struct {
	Kind string // spec | pattern | faulty (a specification whose reader fails after FailAt bytes)
	Text string
	// FailAt: for Kind faulty, the number of bytes delivered before the reader reports an I/O error
	FailAt int
}

// faultyReader delivers the first n bytes of its text in small pieces and then fails with a non-EOF error.
type faultyReader struct {
	text string
	n    int
	pos  int
}

func (f *faultyReader) Read(p []byte) (int, error) {
	if f.pos >= f.n {
		return 0, fmt.Errorf("read fault injected after %d bytes", f.n)
	}
	k := copy(p, f.text[f.pos:f.n])
	if k > 7 {
		k = 7
	}
	f.pos += k
	return k, nil
}

func c17Items(seed uint64) []c17Item {
	r := newRng(seed, "C17/items")
	var out []c17Item
	for i := 0; i < 14; i++ {
		g := genWellFormedSpec(r, wfOpts{nNT: 1 + r.intn(3), nTok: 1 + r.intn(3), nStr: 2 + r.intn(4), nExtraRules: r.intn(3), nDirectives: r.intn(2), depth: 1 + r.intn(3), ruleHandles: true})
		out = append(out, c17Item{Kind: "spec", Text: canonicalText(g)})
	}
	for i := 0; i < 8; i++ {
		g := genWellFormedSpec(r, wfOpts{nNT: 1 + r.intn(2), nTok: 1 + r.intn(3), nStr: 2 + r.intn(3), depth: 1 + r.intn(2)})
		injectors[r.intn(len(injectors))].f(r, g, r.intn(6))
		out = append(out, c17Item{Kind: "spec", Text: canonicalText(g)})
	}
	out = append(out, c17Item{Kind: "spec", Text: "grammar g; start = ( \"a\" \"b\" ) [ \"a\" \"b\" ] { \"a\" \"b\" } {{ \"a\" \"b\" }} ;\n"},
		c17Item{Kind: "spec", Text: "grammar g; start = ( ;\n"}, c17Item{Kind: "spec", Text: "grammar g; start = # ;\n"},
		c17Item{Kind: "spec", Text: "grammar g;\nT1 = /[0-9]{4,2}(/\nT2 = /[z-a]/\nstart = T1 T2;\n"},
		c17Item{Kind: "spec", Text: "grammar g;\nID = /[a-z]+/\nNUM = /[0-9]+/\nstart = {ID | NUM | \"if\"};\n"})
	out = append(out,
		c17Item{Kind: "spec", Text: "grammar p1;\nNUM = /[0-9]+/\n@left \"*\" \"/\"\n@left \"+\" \"-\"\nstart = e;\ne = e \"+\" e | e \"-\" e | e \"*\" e | e \"/\" e | NUM;\n"},
		c17Item{Kind: "spec", Text: "grammar p2;\nNUM = /[0-9]+/\n@right \"+\" \"-\"\n@right \"*\" \"/\"\n@none \"<\"\nstart = e;\ne = e \"+\" e | e \"-\" e | e \"*\" e | e \"/\" e | e \"<\" e | NUM;\n"},
		c17Item{Kind: "spec", Text: "grammar p3;\nID = /[a-z]+/\n@none \"=\"\n@right <e = \"!\" e>\n@left \"&\"\nstart = e;\ne = e \"=\" e | e \"&\" e | \"!\" e | ID;\n"})
	// definition conflicts (reported by Spec.DFA): the same report every time, also for another text with the same header
	out = append(out,
		c17Item{Kind: "spec", Text: "grammar lang;\nAA = /ab?/\nBB = /a|ab|c/\nstart = AA BB;\n"},
		c17Item{Kind: "spec", Text: "grammar lang;\nAA = /ab?/\nBB = /a|ab|c/\nstart = BB AA | AA;\n"},
		c17Item{Kind: "spec", Text: "grammar lang2;\nNUM = /[0-9]+/\nINT = /\\d+/\nstart = NUM INT;\n"})
	// specifications whose source fails part-way (the text read so far must not leak into the next run)
	for _, fa := range []int{1, 9, 14, 30, 45} {
		out = append(out, c17Item{Kind: "faulty", Text: "grammar leak; // start = \"leaked\" ; LEAK = \"l\" ;\nstart = \"x\" ;\n", FailAt: fa})
	}
	out = append(out, c17Item{Kind: "faulty", Text: "grammar leak2;\n/* never closed", FailAt: 20}, c17Item{Kind: "faulty", Text: "grammar leak3;\nLEAKED = \"", FailAt: 24})
	for _, p := range []string{`[a-z]+`, `(a|b)*abb`, `[0-9]+(\.[0-9]+)?`, `a{2,3}b?`, `\w+\s*`, `"[^"]*"`, `x{1}`, `[\x0100-\x0110]`, `(ab){2,}`, `.+`, `[[:alpha:]_][[:alnum:]_]*`, `a|b|c`, `a`, `(a|b)*`,
		`[b-a]`, `[9-0]x`, `a{4,2}`, `x{3,1}y`, `[0-9]{4,2}(`, `[b-a`, `[^9-0`, `a{4,2}(`, `(x{3,1}`, `x{3,1})`, `[`, `(`, `a)`, `*a`, ``, `[z-a]{5,1}`, `[a-a]`, `\p{Nope}`, `\p{Greek}+`, `\P{Greek}+`, `\P{Lu}x`, `\p{Lu}x`, `[\p{Ll}0-9]`, `[^\p{Ll}0-9]a`, `\S+\s`, `\s+\S`} {
		out = append(out, c17Item{Kind: "pattern", Text: p})
	}
	return out
}

// c17Process runs one item through the real entry points and renders the outcome canonically.
func c17Process(it c17Item) string {
	var b strings.Builder
	pv, _ := safely(func() {
		switch it.Kind {
		case "faulty":
			sp, err := spec.Parse(fileName, &faultyReader{text: it.Text, n: it.FailAt})
			if err != nil {
				b.WriteString("ERROR (read fault): " + err.Error() + "\n")
			} else {
				b.WriteString("accepted although the source failed: " + c17RenderSpec(sp))
			}
		case "spec":
			o := observeSpec(it.Text)
			if o.Panic != "" {
				b.WriteString("PANIC " + firstLines(o.Panic, 1))
				return
			}
			b.WriteString(o.render())
			if o.S != nil {
				d, tm, err := o.S.DFA()
				if err != nil {
					b.WriteString("DFA error: " + err.Error() + "\n")
				} else {
					e := fromAutoDFA(d)
					fmt.Fprintf(&b, "DFA states=%d finals=%d symbols=%d\n", e.nst, len(e.final), len(e.alpha))
					var ts []string
					for t, ss := range tm {
						ts = append(ts, fmt.Sprintf("%s:%v", t, ss))
					}
					sort.Strings(ts)
					b.WriteString(strings.Join(ts, " ") + "\n")
				}
			}
		default:
			n, err := nfa.Parse(it.Text)
			if err != nil {
				b.WriteString("nfa.Parse error: " + err.Error() + "\n")
			} else {
				e := fromAutoDFA(n.ToDFA().Minimize())
				fmt.Fprintf(&b, "nfa route: states=%d finals=%d symbols=%d accepts(a)=%v accepts(ab)=%v accepts(12)=%v\n", e.nst, len(e.final), len(e.alpha), e.matches("a"), e.matches("ab"), e.matches("12"))
			}
			a, err := rast.Parse(it.Text)
			if err != nil {
				b.WriteString("ast.Parse error: " + err.Error() + "\n")
			} else {
				e := fromAutoDFA(a.ToDFA())
				fmt.Fprintf(&b, "ast route: states=%d finals=%d accepts(a)=%v accepts(ab)=%v\n", e.nst, len(e.final), e.matches("a"), e.matches("ab"))
			}
		}
	})
	if pv != nil {
		return fmt.Sprintf("PANIC %v", pv)
	}
	return b.String()
}

// c17RenderSpec renders an accepted specification object again (everything a later stage of the tool would read from it).
func c17RenderSpec(s *spec.Spec) string {
	var b strings.Builder
	pv, _ := safely(func() {
		var o specObs
		o.S = s
		fillSpecObs(&o, s)
		b.WriteString(o.render())
		d, tm, err := s.DFA()
		if err != nil {
			b.WriteString("DFA error: " + err.Error() + "\n")
		} else {
			e := fromAutoDFA(d)
			fmt.Fprintf(&b, "DFA states=%d finals=%d symbols=%d\n", e.nst, len(e.final), len(e.alpha))
			var ts []string
			for t, ss := range tm {
				ts = append(ts, fmt.Sprintf("%s:%v", t, ss))
			}
			sort.Strings(ts)
			b.WriteString(strings.Join(ts, " ") + "\n")
		}
	})
	if pv != nil {
		return fmt.Sprintf("PANIC %v", pv)
	}
	return b.String()
}

// nestingReader delivers a specification and, at its first Read, lets another item be processed completely: the two
// runs overlap in time on ONE goroutine, deterministically (no scheduler, no race detector involved).
type nestingReader struct {
	inner io.Reader
	other c17Item
	done  bool
}

func (n *nestingReader) Read(p []byte) (int, error) {
	if !n.done {
		n.done = true
		_ = c17Process(n.other)
	}
	return n.inner.Read(p)
}

// c17ProcessNested renders a specification item whose parse has another item's processing nested inside it.
func c17ProcessNested(a, b c17Item) string {
	var out string
	pv, _ := safely(func() {
		sp, err := spec.Parse(fileName, &nestingReader{inner: strings.NewReader(a.Text), other: b})
		if err != nil {
			out = "ERROR " + err.Error() + "\n"
			return
		}
		out = c17RenderSpec(sp)
	})
	if pv != nil {
		return fmt.Sprintf("PANIC %v", pv)
	}
	return out
}

// c17One: child process: process exactly one item (index) and print the rendering.
func c17One(args []string) int {
	seed, _ := strconv.ParseUint(args[0], 10, 64)
	idx, _ := strconv.Atoi(args[1])
	items := c17Items(seed)
	if idx < 0 || idx >= len(items) {
		return 2
	}
	fmt.Print(c17Process(items[idx]))
	return 0
}

// c17Conc: child process under the race detector: goroutines x rounds; prints one line per mismatch / panic.
func c17Conc(args []string) int {
	seed, _ := strconv.ParseUint(args[0], 10, 64)
	rounds, _ := strconv.Atoi(args[1])
	baseFile := args[2]
	items := c17Items(seed)
	base := map[int]string{}
	for i, l := range readLines(baseFile) {
		s, _ := strconv.Unquote(l)
		base[i] = s
	}
	const N = 16
	var inflight, overlapped, ops atomic.Int64
	var mu sync.Mutex
	var lines []string
	for round := 0; round < rounds; round++ {
		var wg sync.WaitGroup
		start := make(chan struct{})
		for g := 0; g < N; g++ {
			wg.Add(1)
			go func(g int) {
				defer wg.Done()
				r := newRng(seed, fmt.Sprintf("conc/%d/%d", round, g))
				<-start
				for k := 0; k < 4; k++ {
					idx := r.intn(len(items))
					if inflight.Add(1) > 1 {
						overlapped.Add(1)
					}
					got := c17Process(items[idx])
					inflight.Add(-1)
					ops.Add(1)
					if got != base[idx] {
						mu.Lock()
						lines = append(lines, fmt.Sprintf("MISMATCH item=%d got=%s want=%s", idx, strconv.Quote(firstLines(got, 3)), strconv.Quote(firstLines(base[idx], 3))))
						mu.Unlock()
					}
				}
			}(g)
		}
		close(start)
		wg.Wait()
	}
	fmt.Printf("OPS %d OVERLAPPED %d\n", ops.Load(), overlapped.Load())
	for _, l := range lines {
		fmt.Println(l)
	}
	return 0
}

var (
	reRaceFrame = regexp.MustCompile(`^\s+([A-Za-z0-9_./\-@]+)\.[^\s(]*\(`)
)

type raceReport struct {
	Text   string
	Owners []string // owner per stack
}

// parseRaceLogs splits the detector's log files into reports and classifies the owner of each stack.
func parseRaceLogs(dir, prefix string) []raceReport {
	var out []raceReport
	ms, _ := filepath.Glob(filepath.Join(dir, prefix+"*"))
	for _, m := range ms {
		b, err := os.ReadFile(m)
		if err != nil {
			continue
		}
		for _, block := range strings.Split(string(b), "==================") {
			if !strings.Contains(block, "WARNING: DATA RACE") {
				continue
			}
			rep := raceReport{Text: block}
			// stacks are separated by blank lines; the first two are the conflicting accesses
			stacks := strings.Split(block, "\n\n")
			n := 0
			for _, st := range stacks {
				if !(strings.Contains(st, "Write at") || strings.Contains(st, "Read at") || strings.Contains(st, "Previous write at") || strings.Contains(st, "Previous read at")) {
					continue
				}
				n++
				owner := "std"
				for _, line := range strings.Split(st, "\n") {
					fm := reRaceFrame.FindStringSubmatch(line)
					if fm == nil {
						continue
					}
					pkg := fm[1]
					if strings.Contains(pkg, "internal/zzverif") || pkg == "main" {
						continue
					}
					first := strings.Split(pkg, "/")[0]
					if !strings.Contains(first, ".") {
						continue // standard library
					}
					owner = pkg
					break
				}
				rep.Owners = append(rep.Owners, owner)
				if n == 2 {
					break
				}
			}
			out = append(out, rep)
		}
	}
	return out
}

func runC17(c *ctx) {
	self, _ := os.Executable()
	items := c17Items(c.seed)
	// isolated baselines: one fresh process per item
	base := make([]string, len(items))
	for i := range items {
		cmd := exec.Command(self, "aux", "c17one", fmt.Sprint(c.seed), fmt.Sprint(i))
		var ob bytes.Buffer
		cmd.Stdout = &ob
		cmd.Env = append(os.Environ(), "GORACE=halt_on_error=0")
		if err := cmd.Run(); err != nil {
			c.inconclusive("baseline process failed")
			return
		}
		base[i] = ob.String()
		c.eval()
	}
	c.count("isolated_baselines", int64(len(items)))
	// (a) sequential histories
	check := func(name string, order []int) {
		for pos, idx := range order {
			c.eval()
			got := c17Process(items[idx])
			if pos > 0 {
				c.nontrivial(fmt.Sprintf("%s/%d/%d", name, pos, idx))
			}
			if got != base[idx] {
				prev := "(first)"
				if pos > 0 {
					prev = strconv.Quote(items[order[pos-1]].Text)
				}
				c.violate(violation{Case: "history/" + name, Input: map[string]any{"item": items[idx].Text, "kind": items[idx].Kind, "processed_right_after": prev, "position": pos},
					Observed: firstLines(got, 6), Expected: "the result of an isolated run: " + firstLines(base[idx], 6)})
				return
			}
		}
		c.count("history_steps", int64(len(order)))
	}
	id := make([]int, len(items))
	for i := range id {
		id[i] = i
	}
	check("identity", id)
	rev := make([]int, len(items))
	for i := range rev {
		rev[i] = len(items) - 1 - i
	}
	check("reversed", rev)
	var dbl []int
	for i := range items {
		dbl = append(dbl, i, i)
	}
	check("doubled", dbl)
	r := c.rng("orders")
	for s := 0; s < c.n(6, 40); s++ {
		check(fmt.Sprintf("shuffle%d", s), shuffled(r, id))
	}
	// every failing item directly before a few succeeding ones
	var bad, good []int
	for i := range items {
		if strings.Contains(base[i], "error") || strings.HasPrefix(base[i], "ERROR") {
			bad = append(bad, i)
		} else {
			good = append(good, i)
		}
	}
	var alt []int
	for bi, b := range bad {
		for k := 0; k < 3 && len(good) > 0; k++ {
			alt = append(alt, b, good[(bi*3+k)%len(good)])
		}
	}
	check("invalid-then-valid", alt)
	// overlapping runs on one goroutine: item B is processed from inside the reader of item A
	{
		nested := 0
		for ai, a := range items {
			if a.Kind != "spec" || strings.HasPrefix(base[ai], "ERROR") || strings.Contains(base[ai], "PANIC") {
				continue
			}
			for bi, b := range items {
				if b.Kind != "spec" || (c.quick() && (ai+bi)%4 != 0) {
					continue
				}
				c.eval()
				got := c17ProcessNested(a, b)
				nested++
				c.nontrivial(fmt.Sprintf("nested/%d/%d", ai, bi))
				if got != base[ai] {
					c.violate(violation{Case: "nested-run", Input: map[string]any{"item": a.Text, "processed_while_this_item_was_being_read": b.Text},
						Observed: firstDiffLine(got, base[ai]), Expected: "the result of an isolated run: " + firstLines(base[ai], 6)})
					break
				}
			}
		}
		c.count("runs_with_another_run_nested_inside", int64(nested))
	}
	// results that are HELD while other texts are processed: a Spec handed out earlier must not change when the next
	// specification is parsed (shared tables, recycled buffers, aliased slices)
	{
		var specIdx []int
		for i, it := range items {
			if it.Kind == "spec" && !strings.Contains(base[i], "PANIC") {
				specIdx = append(specIdx, i)
			}
		}
		held := 0
		for _, a := range specIdx {
			oa := observeSpec(items[a].Text)
			if oa.S == nil {
				continue
			}
			first := c17RenderSpec(oa.S)
			if first != base[a] {
				continue // already reported by the histories above
			}
			for k, b := range specIdx {
				if c.quick() && (a+k)%3 != 0 {
					continue
				}
				c.eval()
				_ = c17Process(items[b])
				again := c17RenderSpec(oa.S)
				held++
				c.nontrivial(fmt.Sprintf("held/%d/%d", a, b))
				if again != first {
					c.violate(violation{Case: "held-result", Input: map[string]any{"held": items[a].Text, "processed_meanwhile": items[b].Text},
						Observed: "the specification object obtained earlier now renders as: " + firstDiffLine(again, first), Expected: "unchanged: " + firstLines(first, 6)})
					return
				}
			}
		}
		c.count("held_results_re_read_after_another_text_was_processed", int64(held))
	}
	c.sample(map[string]any{"items": len(items), "failing_items": len(bad), "example_item": items[0].Text, "example_baseline": firstLines(base[0], 4)})

	// (b) concurrent, under the race detector
	workDir := filepath.Join(verifDir, "work", "C17")
	baseFile := filepath.Join(workDir, "baselines.txt")
	var bb strings.Builder
	for _, s := range base {
		bb.WriteString(strconv.Quote(s) + "\n")
	}
	_ = os.WriteFile(baseFile, []byte(bb.String()), 0o644)
	raceBin := filepath.Join(verifDir, "bin", "vh-race")
	if _, err := os.Stat(raceBin); err != nil {
		c.inconclusive("race-instrumented harness missing")
		return
	}
	runs := c.n(1, 6)
	depRaces, emergeRaces := 0, 0
	ownersSeen := map[string]int{}
	for k := 0; k < runs; k++ {
		logPrefix := fmt.Sprintf("race-%d.", k)
		cmd := exec.Command(raceBin, "aux", "c17conc", fmt.Sprint(c.seed), fmt.Sprint(c.n(2, 10)), baseFile)
		cmd.Env = append(os.Environ(), "GORACE=halt_on_error=0 log_path="+filepath.Join(workDir, logPrefix))
		var ob, eb bytes.Buffer
		cmd.Stdout, cmd.Stderr = &ob, &eb
		runErr := cmd.Run()
		reports := parseRaceLogs(workDir, logPrefix)
		c.count("race_reports", int64(len(reports)))
		runDep := 0
		dedupe := map[string]bool{}
		for _, rp := range reports {
			emergeOwned := false
			for _, o := range rp.Owners {
				ownersSeen[o]++
				if strings.HasPrefix(o, "github.com/gardenbed/emerge") {
					emergeOwned = true
				}
			}
			if emergeOwned {
				key := strings.Join(rp.Owners, "|")
				if !dedupe[key] {
					dedupe[key] = true
					emergeRaces++
					c.violate(violation{Case: "race", Input: fmt.Sprintf("concurrent run #%d: 16 goroutines processing different specifications and patterns", k), Observed: "data race with an owner frame in emerge: " + firstLines(strings.TrimSpace(rp.Text), 28), Expected: "no unsynchronised access to shared mutable state"})
				}
			} else {
				runDep++
				depRaces++
			}
		}
		out := ob.String()
		for _, line := range strings.Split(out, "\n") {
			if strings.HasPrefix(line, "OPS ") {
				f := strings.Fields(line)
				if len(f) == 4 {
					n, _ := strconv.Atoi(f[1])
					ov, _ := strconv.Atoi(f[3])
					c.evalN(int64(n))
					c.count("concurrent_operations", int64(n))
					c.count("operations_overlapping_another_goroutine", int64(ov))
					for i := 0; i < ov && i < 400; i++ {
						c.nontrivial(fmt.Sprintf("conc/%d/%d", k, i))
					}
				}
			}
		}
		mism := strings.Count(out, "MISMATCH ")
		died := runErr != nil
		if died && strings.Contains(eb.String(), "github.com/gardenbed/emerge/internal/") && strings.Contains(eb.String(), "fatal error") && !strings.Contains(eb.String(), "moorara/algo") {
			c.violate(violation{Case: "race/fatal", Input: fmt.Sprintf("concurrent run #%d", k), Observed: "process died: " + firstLines(eb.String(), 20), Expected: "no crash under concurrent use"})
		}
		if mism > 0 || died {
			if runDep > 0 {
				c.count("concurrent_mismatches_not_attributable_dependency_races_present", int64(mism))
			} else if mism > 0 {
				c.violate(violation{Case: "concurrent-results", Input: fmt.Sprintf("concurrent run #%d", k), Observed: firstLines(out, 8), Expected: "results equal the isolated baselines"})
			}
		}
	}
	if depRaces > 0 {
		c.violate(violation{Sig: "race-owned-by-dependency", Case: "race/dependency", Input: "16 goroutines calling spec.Parse / nfa.Parse concurrently", Observed: fmt.Sprintf("%d race reports whose owner frames are all outside emerge, owners: %v", depRaces, topOwners(ownersSeen)), Expected: "no data race"})
	}
	for o, n := range ownersSeen {
		c.setAdd("race_owner_packages", fmt.Sprintf("%s x%d", o, n))
	}
}

func topOwners(m map[string]int) []string {
	var ks []string
	for k := range m {
		ks = append(ks, k)
	}
	sort.Slice(ks, func(i, j int) bool { return m[ks[i]] > m[ks[j]] })
	if len(ks) > 6 {
		ks = ks[:6]
	}
	return ks
}

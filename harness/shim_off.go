//go:build verif_noshim

package main

const buildMode = "noshim (black-box fallback)"

package main

// Generators and printers of specification texts (shared by C01, C06, C07, C11, C12, C13, C18, C20).
// A specification is generated as a typed tree (the same types the reference reader R1 produces), printed
// as a token list, and laid out with a chosen separator policy.

import (
	"fmt"
	"strings"
)

type gtok struct {
	Kind string
	Text string // source text including delimiters
}

func exprTokens(e *rexpr, out *[]gtok) {
	switch e.Kind {
	case xConcat:
		for _, k := range e.Kids {
			if k.Kind == xAlt || k.Kind == xConcat {
				panic("generator produced alt/concat directly under concat (needs a group)")
			}
			exprTokens(k, out)
		}
	case xAlt:
		for i, k := range e.Kids {
			if i > 0 {
				*out = append(*out, gtok{"|", "|"})
			}
			if k.Kind == xEmpty {
				continue
			}
			if k.Kind == xAlt {
				panic("nested alt must be flattened")
			}
			exprTokens(k, out)
		}
	case xEmpty:
	case xGroup, xOpt, xStar, xPlus:
		br := map[int][2]string{xGroup: {"(", ")"}, xOpt: {"[", "]"}, xStar: {"{", "}"}, xPlus: {"{{", "}}"}}[e.Kind]
		*out = append(*out, gtok{br[0], br[0]})
		exprTokens(e.Kids[0], out)
		*out = append(*out, gtok{br[1], br[1]})
	case xNonTerm:
		*out = append(*out, gtok{"IDENT", e.Name})
	case xString:
		*out = append(*out, gtok{"STRING", `"` + e.Name + `"`})
	case xToken:
		*out = append(*out, gtok{"TOKEN", e.Name})
	}
}

func ruleTokens(r *rrule, out *[]gtok) {
	*out = append(*out, gtok{"IDENT", r.LHS}, gtok{"=", "="})
	if r.RHS != nil {
		exprTokens(r.RHS, out)
	}
}

// specTokens prints a typed tree. semi(i) decides whether optional semicolon #i is written.
func specTokens(g *rgrammar, semi func(i int) bool) []gtok {
	var out []gtok
	nOpt := 0
	opt := func() {
		if semi == nil || semi(nOpt) {
			out = append(out, gtok{";", ";"})
		}
		nOpt++
	}
	out = append(out, gtok{"grammar", "grammar"}, gtok{"IDENT", g.Name})
	opt()
	for di, d := range g.Decls {
		switch d.Kind {
		case "token":
			out = append(out, gtok{"TOKEN", d.Name}, gtok{"=", "="})
			switch d.ValKind {
			case "STRING":
				out = append(out, gtok{"STRING", `"` + d.Value + `"`})
			case "REGEX":
				out = append(out, gtok{"REGEX", "/" + d.Value + "/"})
			default:
				out = append(out, gtok{"PREDEF", d.Value})
			}
			opt()
		case "directive":
			out = append(out, gtok{d.Assoc, d.Assoc})
			for _, h := range d.Handles {
				switch {
				case h.IsRule:
					out = append(out, gtok{"<", "<"})
					ruleTokens(h.Rule, &out)
					out = append(out, gtok{">", ">"})
				case h.IsStr:
					out = append(out, gtok{"STRING", `"` + h.Term + `"`})
				default:
					out = append(out, gtok{"TOKEN", h.Term})
				}
			}
			if di+1 < len(g.Decls) && g.Decls[di+1].Kind == "token" {
				// handles are consumed greedily: "@left A  B = ..." would read B as a handle, so the ';' is not optional here
				out = append(out, gtok{";", ";"})
				nOpt++
			} else {
				opt()
			}
		case "rule":
			ruleTokens(d.Rule, &out)
			out = append(out, gtok{";", ";"})
		}
	}
	return out
}

// needsGap reports whether two adjacent tokens would fuse or change meaning without a separator.
func needsGap(a, b gtok) bool {
	wordy := func(k string) bool {
		switch k {
		case "IDENT", "TOKEN", "PREDEF", "grammar", "@left", "@right", "@none":
			return true
		}
		return false
	}
	if wordy(a.Kind) && wordy(b.Kind) {
		return true
	}
	if (a.Kind == "{" && (b.Kind == "{" || b.Kind == "{{")) || (a.Kind == "}" && (b.Kind == "}" || b.Kind == "}}")) {
		return true
	}
	if (a.Kind == "{{" && b.Kind == "{") || (a.Kind == "}}" && b.Kind == "}") {
		return false
	}
	if b.Kind == "REGEX" || a.Kind == "REGEX" {
		return true // a '/' next to another '/' or '*' would open a comment
	}
	return false
}

type layout struct {
	seps     []string // candidate separators
	tight    bool     // omit separators where legal
	comments bool     // sprinkle comments
	finalNL  bool
	lead     string
}

var (
	sepPlain    = []string{" "}
	sepVaried   = []string{" ", "\t", "\n", "\r\n", "  ", "\n\n", " \t "}
	sepComments = []string{" /* c */ ", " // c\n", "/**/", "\n// x y z\n", " /* a\n b */\n", "/* ** */", "\t//\t\"q\n", "/*/ note */", "/*//////*/", "/*/*/", "/*/ | \"(\" x \")\" /*/", "/***/", "/*\n*/", "/* \\*\\* */", "/**\\**/", "/* *\\/ x */", "/*\\*/"}
)

func layoutTokens(toks []gtok, r *rng, l layout) string {
	var b strings.Builder
	b.WriteString(l.lead)
	for i, t := range toks {
		if i > 0 {
			gap := needsGap(toks[i-1], t)
			switch {
			case l.comments && r != nil && r.chance(1, 4):
				b.WriteString(" " + pick(r, sepComments) + " ")
			case l.tight && !gap:
			case r == nil:
				b.WriteString(" ")
			default:
				b.WriteString(pick(r, l.seps))
			}
		}
		b.WriteString(t.Text)
	}
	if l.comments && r != nil && r.chance(1, 3) {
		// what may follow the last token: a comment that ends the file with or without a final line break, blanks ...
		b.WriteString(pick(r, []string{" // end", " // end\n", " /* end */", " /* end */\n", "\n/* a\n b */", "/**/", " /* x **/", "\t", "\r\n", " \n \n", "// e\n// f"}))
		return b.String()
	}
	if l.finalNL {
		b.WriteString("\n")
	}
	return b.String()
}

// canonicalText: one space between tokens, all optional semicolons written, final newline.
func canonicalText(g *rgrammar) string {
	return layoutTokens(specTokens(g, nil), nil, layout{finalNL: true})
}

// ---------------------------------------------------------------- random typed trees

type specGen struct {
	r        *rng
	nts      []string // non-terminal names available
	strs     []string // string literal bodies
	toks     []string // token names
	maxDepth int
}

func (g *specGen) atom() *rexpr {
	switch k := g.r.intn(10); {
	case k < 4:
		return &rexpr{Kind: xNonTerm, Name: pick(g.r, g.nts)}
	case k < 8 || len(g.toks) == 0:
		return &rexpr{Kind: xString, Name: pick(g.r, g.strs)}
	default:
		return &rexpr{Kind: xToken, Name: pick(g.r, g.toks)}
	}
}

// primary: atom or bracketed expr
func (g *specGen) primary(depth int) *rexpr {
	if depth > 0 && g.r.chance(2, 5) {
		kind := pick(g.r, []int{xGroup, xOpt, xStar, xPlus})
		return &rexpr{Kind: kind, Kids: []*rexpr{g.expr(depth - 1)}}
	}
	return g.atom()
}

func (g *specGen) concat(depth int) *rexpr {
	n := 1 + g.r.intn(3)
	if n == 1 {
		return g.primary(depth)
	}
	e := &rexpr{Kind: xConcat}
	for i := 0; i < n; i++ {
		e.Kids = append(e.Kids, g.primary(depth))
	}
	return e
}

func (g *specGen) expr(depth int) *rexpr {
	if !g.r.chance(2, 5) {
		return g.concat(depth)
	}
	e := &rexpr{Kind: xAlt}
	n := 2 + g.r.intn(2)
	for i := 0; i < n; i++ {
		if i > 0 && g.r.chance(1, 6) {
			e.Kids = append(e.Kids, &rexpr{Kind: xEmpty})
			continue
		}
		e.Kids = append(e.Kids, g.concat(depth))
	}
	if e.Kids[len(e.Kids)-1].Kind != xEmpty && g.r.chance(1, 5) {
		e.Kids = append(e.Kids, &rexpr{Kind: xEmpty})
	}
	return e
}

func (g *specGen) rule(lhs string) *rrule {
	r := &rrule{LHS: lhs}
	if !g.r.chance(1, 8) {
		r.RHS = g.expr(g.maxDepth)
	}
	return r
}

var (
	genNTNames   = []string{"start", "expr", "term", "stmt", "a", "b", "list", "x_1", "opt", "star", "plus", "group", "gen1_group", "gen_a_star", "item", "g", "gra", "gramm", "gramma", "grammm", "grammmar_2", "grammars", "grammar_", "grammaa", "left", "none_"}
	genStrBodies = []string{"a", "b", "+", "-", "*", "(", ")", "if", "then", ";", "=", "{{", `\"`, `x\\y`, "<=", "&&", "!"}
	genTokNames  = []string{"ID", "NUM", "STR", "WS", "COMMENT", "OP_1", "KW"}
	genRegexes   = []string{`[a-z]+`, `[0-9]+`, `a|b`, `"[^"]*"`, `\x2F\x2F.*`, `[A-Z][0-9A-Z_]*`, `-?[0-9]+(\.[0-9]+)?`, `x{2,3}`}
	genPredefs   = []string{"$WS", "$DIGIT", "$LETTER", "$ID", "$NUMBER", "$STRING", "$COMMENT"}
)

// genSyntacticSpec: syntactically valid (not necessarily well-formed) specification.
func genSyntacticSpec(r *rng, ndecls int, depth int) *rgrammar {
	g := &specGen{r: r, nts: genNTNames, strs: genStrBodies, toks: genTokNames, maxDepth: depth}
	out := &rgrammar{Name: pick(r, []string{"g", "calc", "my_lang", "grammars", "gramma", "x9"})}
	for i := 0; i < ndecls; i++ {
		switch k := r.intn(10); {
		case k < 2:
			d := rdecl{Kind: "token", Name: pick(r, genTokNames)}
			switch r.intn(3) {
			case 0:
				d.ValKind, d.Value = "STRING", pick(r, genStrBodies)
			case 1:
				d.ValKind, d.Value = "REGEX", pick(r, genRegexes)
			default:
				d.ValKind, d.Value = "PREDEF", pick(r, genPredefs)
			}
			out.Decls = append(out.Decls, d)
		case k < 4:
			d := rdecl{Kind: "directive", Assoc: pick(r, []string{"@left", "@right", "@none"})}
			for h := 1 + r.intn(4); h > 0; h-- {
				switch r.intn(3) {
				case 0:
					d.Handles = append(d.Handles, rhandle{Term: pick(r, genTokNames)})
				case 1:
					d.Handles = append(d.Handles, rhandle{Term: pick(r, genStrBodies), IsStr: true})
				default:
					d.Handles = append(d.Handles, rhandle{IsRule: true, Rule: g.rule(pick(r, genNTNames))})
				}
			}
			out.Decls = append(out.Decls, d)
		default:
			out.Decls = append(out.Decls, rdecl{Kind: "rule", Rule: g.rule(pick(r, genNTNames))})
		}
	}
	return out
}

// ---------------------------------------------------------------- structural equality / rendering of typed trees

func exprString(e *rexpr) string {
	if e == nil {
		return "ε-rule"
	}
	switch e.Kind {
	case xConcat, xAlt:
		op := " "
		if e.Kind == xAlt {
			op = " | "
		}
		var xs []string
		for _, k := range e.Kids {
			xs = append(xs, exprString(k))
		}
		return "<" + strings.Join(xs, op) + ">"
	case xEmpty:
		return "ε"
	case xGroup:
		return "(" + exprString(e.Kids[0]) + ")"
	case xOpt:
		return "[" + exprString(e.Kids[0]) + "]"
	case xStar:
		return "{" + exprString(e.Kids[0]) + "}"
	case xPlus:
		return "{{" + exprString(e.Kids[0]) + "}}"
	case xNonTerm:
		return e.Name
	case xString:
		return `"` + e.Name + `"`
	case xToken:
		return "T:" + e.Name
	}
	return "?"
}

func ruleString(r *rrule) string { return r.LHS + " = " + exprString(r.RHS) }

func grammarString(g *rgrammar) string {
	var b strings.Builder
	fmt.Fprintf(&b, "grammar %s\n", g.Name)
	for _, d := range g.Decls {
		switch d.Kind {
		case "token":
			fmt.Fprintf(&b, "token %s = %s %q\n", d.Name, d.ValKind, d.Value)
		case "directive":
			fmt.Fprintf(&b, "%s", d.Assoc)
			for _, h := range d.Handles {
				switch {
				case h.IsRule:
					fmt.Fprintf(&b, " <%s>", ruleString(h.Rule))
				case h.IsStr:
					fmt.Fprintf(&b, " %q", h.Term)
				default:
					fmt.Fprintf(&b, " T:%s", h.Term)
				}
			}
			b.WriteString("\n")
		case "rule":
			fmt.Fprintf(&b, "rule %s\n", ruleString(d.Rule))
		}
	}
	return b.String()
}

// ---------------------------------------------------------------- well-formed specifications

type wfOpts struct {
	nNT, nTok, nStr, nExtraRules, nDirectives, depth int
	ruleHandles                                      bool
}

func shuffled[T any](r *rng, xs []T) []T {
	out := append([]T{}, xs...)
	for i := len(out) - 1; i > 0; i-- {
		j := r.intn(i + 1)
		out[i], out[j] = out[j], out[i]
	}
	return out
}

var (
	wfStrPool   = []string{"a", "b", "c", "+", "-", "*", "(", ")", "if", "then", "else", ";", "=", "{{", "<=", "&&", "!", ",", ".", "[", "]", `\\n`, "n", `\\t`, "t", `\\`, `\"`, `\\\\`}
	wfTokStr    = []string{"while", "do", "end", "::", "=>", "%", "begin"}
	wfTokRegex  = []string{`[a-z]+`, `[0-9]+`, `"[^"]*"`, `[A-Z][0-9A-Z_]*`, `0x[0-9A-F]+`, `#[a-z]*`, `\x2F\x2F[a-z ]*`}
	wfTokPredef = []string{"$WS", "$DIGIT", "$LETTER", "$ID", "$NUMBER", "$STRING", "$COMMENT"}
	wfNTPool    = []string{"expr", "term", "stmt", "a", "b", "list", "x_1", "item", "opt", "group", "factor", "decl", "args", "block", "tail", "gen", "genx", "op_group", "gramm", "grammm", "grammars", "grammmy", "gramma_r"}
	wfTokNames  = []string{"ID", "NUM", "STR", "WS", "COMMENT", "OP_1", "KW", "HEX", "EOL"}
)

// genWellFormedSpec returns a specification that spec.Parse must accept: every token used is defined exactly once,
// all values distinct, every non-terminal used has a rule, start is present, no handle in two levels.
func genWellFormedSpec(r *rng, o wfOpts) *rgrammar {
	nts := append([]string{"start"}, shuffled(r, wfNTPool)[:o.nNT]...)
	toks := shuffled(r, wfTokNames)[:o.nTok]
	strs := shuffled(r, wfStrPool)[:max(1, o.nStr)]
	g := &specGen{r: r, nts: nts, strs: strs, toks: toks, maxDepth: o.depth}
	out := &rgrammar{Name: pick(r, []string{"g", "calc", "my_lang", "grammars", "x9"})}
	var decls []rdecl
	// token declarations with distinct values
	sv, rv, pv := shuffled(r, wfTokStr), shuffled(r, wfTokRegex), shuffled(r, wfTokPredef)
	for i, t := range toks {
		d := rdecl{Kind: "token", Name: t}
		switch (i + r.intn(3)) % 3 {
		case 0:
			d.ValKind, d.Value = "STRING", sv[i%len(sv)]
			sv = append(sv[:i%len(sv)], sv[i%len(sv)+1:]...)
		case 1:
			d.ValKind, d.Value = "REGEX", rv[i%len(rv)]
			rv = append(rv[:i%len(rv)], rv[i%len(rv)+1:]...)
		default:
			d.ValKind, d.Value = "PREDEF", pv[i%len(pv)]
			pv = append(pv[:i%len(pv)], pv[i%len(pv)+1:]...)
		}
		decls = append(decls, d)
	}
	// one rule per non-terminal, plus extras
	for _, n := range nts {
		decls = append(decls, rdecl{Kind: "rule", Rule: g.rule(n)})
	}
	for i := 0; i < o.nExtraRules; i++ {
		decls = append(decls, rdecl{Kind: "rule", Rule: g.rule(pick(r, nts))})
	}
	// directives: each handle at most once overall
	var termHandles []rhandle
	for _, s := range strs {
		termHandles = append(termHandles, rhandle{Term: s, IsStr: true})
	}
	for _, t := range toks {
		termHandles = append(termHandles, rhandle{Term: t})
	}
	termHandles = shuffled(r, termHandles)
	usedRuleHandle := map[string]bool{}
	for i := 0; i < o.nDirectives; i++ {
		d := rdecl{Kind: "directive", Assoc: pick(r, []string{"@left", "@right", "@none"})}
		n := 1 + r.intn(3)
		for k := 0; k < n; k++ {
			if o.ruleHandles && r.chance(1, 3) {
				rl := &rrule{LHS: pick(r, nts)}
				a, b := pick(r, nts), pick(r, nts)
				rl.RHS = &rexpr{Kind: xConcat, Kids: []*rexpr{{Kind: xNonTerm, Name: a}, {Kind: xNonTerm, Name: b}}}
				key := ruleString(rl)
				if !usedRuleHandle[key] {
					usedRuleHandle[key] = true
					d.Handles = append(d.Handles, rhandle{IsRule: true, Rule: rl})
					continue
				}
			}
			if len(termHandles) > 0 {
				d.Handles = append(d.Handles, termHandles[0])
				termHandles = termHandles[1:]
			}
		}
		if len(d.Handles) > 0 {
			decls = append(decls, d)
		}
	}
	out.Decls = shuffled(r, decls)
	return out
}

package main

// R4 - LALR(1) kit (reference; textbook construction, no hashing tricks, independent of moorara/algo):
// canonical LR(1) item sets -> merge by core -> ACTION with SETS of actions -> documented conflict resolution.
// Also a generic shift-reduce driver that runs ANY table given as lookup functions and builds the tree.

import (
	"fmt"
	"sort"
	"strings"
)

type cprod struct {
	Head string
	Body []string
}

func (p cprod) String() string {
	if len(p.Body) == 0 {
		return p.Head + " → ε"
	}
	return p.Head + " → " + strings.Join(p.Body, " ")
}

type cgrammar struct {
	Terms []string
	NTs   []string
	Prods []cprod
	Start string
	isNT  map[string]bool
}

func newCGrammar(terms, nts []string, prods []cprod, start string) *cgrammar {
	g := &cgrammar{Terms: terms, NTs: nts, Prods: prods, Start: start, isNT: map[string]bool{}}
	for _, n := range nts {
		g.isNT[n] = true
	}
	return g
}

const endMark = "\x00$end"
const augStart = "\x00S'"

type lrAction struct {
	Kind   byte // 's' shift, 'r' reduce, 'a' accept
	Target int  // state for shift, production index for reduce
}

type precLevel struct {
	Assoc   string          // "left" | "right" | "none"
	Terms   map[string]bool // terminal handles
	ProdIdx map[int]bool    // production handles (indices into g.Prods)
}

type lalrTable struct {
	g        *cgrammar
	nstates  int
	action   []map[string][]lrAction // per state, per terminal: the SET of actions before resolution
	resolved []map[string]lrAction   // after resolution (only entries that are decided)
	gotoT    []map[string]int
	// conflicts that the documented rule leaves undecided: (state, terminal)
	unresolved []lalrConflict
	// conflicts decided by directives
	decided int
	// multiway conflicts (>2 actions) - the documented rule does not say how to combine pairwise verdicts
	multiway int
}

type lalrConflict struct {
	State    int
	Terminal string
	Actions  []lrAction
	Kind     string // "Shift/Reduce" | "Reduce/Reduce"
}

type lrItem struct {
	prod, dot int
	la        string
}

func (g *cgrammar) first() (map[string]map[string]bool, map[string]bool) {
	first := map[string]map[string]bool{}
	nullable := map[string]bool{}
	for _, n := range g.NTs {
		first[n] = map[string]bool{}
	}
	for changed := true; changed; {
		changed = false
		for _, p := range g.Prods {
			allNull := true
			for _, s := range p.Body {
				if g.isNT[s] {
					for t := range first[s] {
						if !first[p.Head][t] {
							first[p.Head][t] = true
							changed = true
						}
					}
					if !nullable[s] {
						allNull = false
						break
					}
				} else {
					if !first[p.Head][s] {
						first[p.Head][s] = true
						changed = true
					}
					allNull = false
					break
				}
			}
			if allNull && !nullable[p.Head] {
				nullable[p.Head] = true
				changed = true
			}
		}
	}
	return first, nullable
}

// buildLALR constructs the LALR(1) table of g (augmented internally) and resolves conflicts with prec.
func buildLALR(g *cgrammar, prec []precLevel) *lalrTable {
	// augmented production is index len(g.Prods)
	prods := append(append([]cprod{}, g.Prods...), cprod{augStart, []string{g.Start}})
	aug := len(prods) - 1
	byHead := map[string][]int{}
	for i, p := range prods {
		byHead[p.Head] = append(byHead[p.Head], i)
	}
	isNT := func(s string) bool { return g.isNT[s] || s == augStart }
	first, nullable := g.first()
	firstOfSeq := func(seq []string, la string) []string {
		out := map[string]bool{}
		allNull := true
		for _, s := range seq {
			if isNT(s) {
				for t := range first[s] {
					out[t] = true
				}
				if !nullable[s] {
					allNull = false
					break
				}
			} else {
				out[s] = true
				allNull = false
				break
			}
		}
		if allNull {
			out[la] = true
		}
		r := make([]string, 0, len(out))
		for t := range out {
			r = append(r, t)
		}
		return r
	}
	closure := func(items map[lrItem]bool) map[lrItem]bool {
		work := make([]lrItem, 0, len(items))
		for it := range items {
			work = append(work, it)
		}
		for len(work) > 0 {
			it := work[len(work)-1]
			work = work[:len(work)-1]
			body := prods[it.prod].Body
			if it.dot >= len(body) || !isNT(body[it.dot]) {
				continue
			}
			B := body[it.dot]
			las := firstOfSeq(body[it.dot+1:], it.la)
			for _, pi := range byHead[B] {
				for _, la := range las {
					n := lrItem{pi, 0, la}
					if !items[n] {
						items[n] = true
						work = append(work, n)
					}
				}
			}
		}
		return items
	}
	keyOf := func(items map[lrItem]bool, withLA bool) string {
		xs := make([]string, 0, len(items))
		seen := map[string]bool{}
		for it := range items {
			var k string
			if withLA {
				k = fmt.Sprintf("%d.%d/%s", it.prod, it.dot, it.la)
			} else {
				k = fmt.Sprintf("%d.%d", it.prod, it.dot)
			}
			if !seen[k] {
				seen[k] = true
				xs = append(xs, k)
			}
		}
		sort.Strings(xs)
		return strings.Join(xs, " ")
	}
	// canonical LR(1) collection
	var states []map[lrItem]bool
	index := map[string]int{}
	start := closure(map[lrItem]bool{{aug, 0, endMark}: true})
	states = append(states, start)
	index[keyOf(start, true)] = 0
	type edge struct {
		from int
		sym  string
		to   int
	}
	var edges []edge
	for i := 0; i < len(states); i++ {
		bySym := map[string]map[lrItem]bool{}
		var syms []string
		for it := range states[i] {
			body := prods[it.prod].Body
			if it.dot < len(body) {
				s := body[it.dot]
				if bySym[s] == nil {
					bySym[s] = map[lrItem]bool{}
					syms = append(syms, s)
				}
				bySym[s][lrItem{it.prod, it.dot + 1, it.la}] = true
			}
		}
		sort.Strings(syms)
		for _, s := range syms {
			t := closure(bySym[s])
			k := keyOf(t, true)
			j, ok := index[k]
			if !ok {
				j = len(states)
				states = append(states, t)
				index[k] = j
			}
			edges = append(edges, edge{i, s, j})
		}
	}
	// merge by core
	coreID := map[string]int{}
	merged := make([]int, len(states))
	var mstates []map[lrItem]bool
	for i, st := range states {
		k := keyOf(st, false)
		id, ok := coreID[k]
		if !ok {
			id = len(mstates)
			coreID[k] = id
			mstates = append(mstates, map[lrItem]bool{})
		}
		merged[i] = id
		for it := range st {
			mstates[id][it] = true
		}
	}
	t := &lalrTable{g: g, nstates: len(mstates)}
	t.action = make([]map[string][]lrAction, len(mstates))
	t.resolved = make([]map[string]lrAction, len(mstates))
	t.gotoT = make([]map[string]int, len(mstates))
	for i := range mstates {
		t.action[i] = map[string][]lrAction{}
		t.resolved[i] = map[string]lrAction{}
		t.gotoT[i] = map[string]int{}
	}
	addAct := func(s int, a string, act lrAction) {
		for _, x := range t.action[s][a] {
			if x == act {
				return
			}
		}
		t.action[s][a] = append(t.action[s][a], act)
	}
	for _, e := range edges {
		from, to := merged[e.from], merged[e.to]
		if isNT(e.sym) {
			t.gotoT[from][e.sym] = to
		} else {
			addAct(from, e.sym, lrAction{'s', to})
		}
	}
	for i, st := range mstates {
		for it := range st {
			if it.dot == len(prods[it.prod].Body) {
				if it.prod == aug {
					addAct(i, endMark, lrAction{'a', 0})
				} else {
					addAct(i, it.la, lrAction{'r', it.prod})
				}
			}
		}
	}
	// resolution by the documented rule
	levelOfTerm := func(a string) (int, bool) {
		for i, l := range prec {
			if l.Terms[a] {
				return i, true
			}
		}
		return 0, false
	}
	levelOfProd := func(pi int) (int, bool) {
		for _, s := range g.Prods[pi].Body {
			if !g.isNT[s] {
				return levelOfTerm(s) // leftmost terminal
			}
		}
		for i, l := range prec {
			if l.ProdIdx[pi] {
				return i, true
			}
		}
		return 0, false
	}
	// beats(x, y): +1 x wins, -1 y wins, 0 undecided
	beats := func(a string, x, y lrAction) int {
		lvl := func(z lrAction) (int, bool) {
			if z.Kind == 's' {
				return levelOfTerm(a)
			}
			if z.Kind == 'r' {
				return levelOfProd(z.Target)
			}
			return 0, false
		}
		lx, okx := lvl(x)
		ly, oky := lvl(y)
		if !okx || !oky {
			return 0
		}
		if lx < ly {
			return 1
		}
		if lx > ly {
			return -1
		}
		switch prec[lx].Assoc {
		case "left":
			if x.Kind == 'r' && y.Kind == 's' {
				return 1
			}
			if x.Kind == 's' && y.Kind == 'r' {
				return -1
			}
		case "right":
			if x.Kind == 's' && y.Kind == 'r' {
				return 1
			}
			if x.Kind == 'r' && y.Kind == 's' {
				return -1
			}
		}
		return 0
	}
	for s := range mstates {
		terms := make([]string, 0, len(t.action[s]))
		for a := range t.action[s] {
			terms = append(terms, a)
		}
		sort.Strings(terms)
		for _, a := range terms {
			acts := t.action[s][a]
			sort.Slice(acts, func(i, j int) bool {
				if acts[i].Kind != acts[j].Kind {
					return acts[i].Kind < acts[j].Kind
				}
				return acts[i].Target < acts[j].Target
			})
			if len(acts) == 1 {
				t.resolved[s][a] = acts[0]
				continue
			}
			if len(acts) > 2 {
				t.multiway++
			}
			winner := -1
			for i := range acts {
				all := true
				for j := range acts {
					if i != j && beats(a, acts[i], acts[j]) != 1 {
						all = false
					}
				}
				if all {
					winner = i
				}
			}
			if winner >= 0 {
				t.resolved[s][a] = acts[winner]
				t.decided++
				continue
			}
			kind := "Reduce/Reduce"
			for _, x := range acts {
				if x.Kind == 's' {
					kind = "Shift/Reduce"
				}
			}
			t.unresolved = append(t.unresolved, lalrConflict{s, a, acts, kind})
		}
	}
	return t
}

// ------------------------------------------------------------------ generic shift-reduce driver

type ptree struct {
	Sym  string
	Prod int // -1 for a leaf
	Kids []*ptree
	Tok  int
}

func (t *ptree) String() string {
	if t.Prod < 0 {
		return t.Sym
	}
	var b strings.Builder
	b.WriteString("(" + t.Sym)
	for _, k := range t.Kids {
		b.WriteString(" " + k.String())
	}
	b.WriteString(")")
	return b.String()
}

// tableFuncs abstracts a parsing table: mine, the library's lr.ParsingTable, or emerge's coded ACTION/GOTO.
type tableFuncs struct {
	action func(state int, term string) (kind byte, target int, ok bool) // term "" = end marker
	gotoF  func(state int, nt string) (int, bool)
	prod   func(i int) (head string, bodyLen int)
}

// drive runs the standard LR algorithm. Returns (tree, true) on accept; (nil, false) with errAt = index of the
// offending token on a syntax error. steps bounds the run (a correct table needs at most O(n * depth) steps).
func drive(tf tableFuncs, input []string) (tree *ptree, ok bool, errAt int, why string) {
	states := []int{0}
	var nodes []*ptree
	pos := 0
	for steps := 0; steps < 20000+200*len(input); steps++ {
		a := ""
		if pos < len(input) {
			a = input[pos]
		}
		kind, target, found := tf.action(states[len(states)-1], a)
		if !found {
			return nil, false, pos, "no action"
		}
		switch kind {
		case 's':
			states = append(states, target)
			nodes = append(nodes, &ptree{Sym: a, Prod: -1, Tok: pos})
			pos++
		case 'r':
			head, n := tf.prod(target)
			if n > len(nodes) || n >= len(states) {
				return nil, false, pos, "stack underflow"
			}
			kids := append([]*ptree{}, nodes[len(nodes)-n:]...)
			nodes = nodes[:len(nodes)-n]
			states = states[:len(states)-n]
			g, gok := tf.gotoF(states[len(states)-1], head)
			if !gok {
				return nil, false, pos, "no goto"
			}
			states = append(states, g)
			nodes = append(nodes, &ptree{Sym: head, Prod: target, Kids: kids})
		case 'a':
			if len(nodes) != 1 {
				return nil, false, pos, "accept with stack size != 1"
			}
			return nodes[0], true, -1, ""
		default:
			return nil, false, pos, "bad action kind"
		}
	}
	return nil, false, pos, "step bound exceeded (table loops)"
}

func (t *lalrTable) funcs() tableFuncs {
	return tableFuncs{
		action: func(s int, a string) (byte, int, bool) {
			if a == "" {
				a = endMark
			}
			if s < 0 || s >= t.nstates {
				return 0, 0, false
			}
			x, ok := t.resolved[s][a]
			return x.Kind, x.Target, ok
		},
		gotoF: func(s int, nt string) (int, bool) {
			v, ok := t.gotoT[s][nt]
			return v, ok
		},
		prod: func(i int) (string, int) { return t.g.Prods[i].Head, len(t.g.Prods[i].Body) },
	}
}

package main

// C19 - compiled and run, the emitted lexer tokenises input exactly as the token automaton says.

import (
	"fmt"
	"os"
	"sort"
	"strings"
	"sync"
	"unicode/utf8"
)

func init() {
	register(&property{
		id:    "C19",
		level: "exploration",
		rule: "accepted specifications (keyword/identifier overlaps, tokens named WS/EOL/COMMENT, no whitespace token at all, tokens that start with a blank, multi-byte and astral literals, every predefined pattern, seeded ones) are emitted by the real CLI, built in a requirement-free module and driven as a child process. " +
			"Inputs are generated FROM THE AUTOMATON: random accepting walks joined with / without blanks, dead-end walks (near-misses), stray characters incl. 2-, 3-, 4-byte UTF-8 and non-discardable white space (VT, FF, NBSP, U+2028), empty input, input ending inside a token, with and without a final newline, fed whole and in small read chunks; " +
			"plus a padding sweep that moves tokens across every alignment of the emitted reader's buffer halves (quick: windows below each multiple of 4096 up to 16384 and every 16th padding; thorough: every padding up to 3 buffers), with tokens straddling offset 8192*k. " +
			"Oracle: the documented scanning discipline run on emerge's own Spec.DFA(): longest run the automaton allows, owner of the state reached or lexical error, WS/EOL/COMMENT skipped, unmatched space/tab/CR/LF discarded at a token start, exact lexeme, offset (rune- or byte-based, consistently), line, column, EOF after the last token. non-trivial = input yields >= 2 tokens or an error after >= 1 token; distinct by (specification, input).",
		assumptions: []string{"inputs are valid UTF-8 (a few invalid ones only require termination with an error)", "token definitions that match the empty string are excluded", "lexemes are shorter than one buffer half (4096 bytes), the emitted reader's documented limit"},
		floorQuick:  3000, floorThorough: 60000,
		serial: true,
		run:    runC19,
	})
}

type simTok struct {
	T       string
	L       string
	ORune   int
	OByte   int
	Ln, Col int
}

type simResult struct {
	Toks   []simTok
	End    string // "EOF" | "ERR"
	ErrLn  int
	ErrCol int
}

// simulateLexer is R5: the documented scanning discipline over emerge's own automaton.
func simulateLexer(d *eDFA, owner map[int]string, input string) simResult {
	var out simResult
	rs := []rune(input)
	pos, byteOff, line, col := 0, 0, 1, 1
	advancePos := func(r rune) {
		pos++
		byteOff += utf8.RuneLen(r)
		if r == '\n' {
			line++
			col = 1
		} else {
			col++
		}
	}
	for pos < len(rs) {
		// discard unmatched white space at a token start
		if r := rs[pos]; (r == ' ' || r == '\t' || r == '\n' || r == '\r') && d.step(d.start, r) < 0 {
			advancePos(r)
			continue
		}
		st := d.start
		j := pos
		for j < len(rs) {
			nx := d.step(st, rs[j])
			if nx < 0 {
				break
			}
			st = nx
			j++
		}
		t, ok := owner[st]
		if !ok || j == pos {
			out.End, out.ErrLn, out.ErrCol = "ERR", line, col
			return out
		}
		lex := string(rs[pos:j])
		startRune, startByte, sl, sc := pos, byteOff, line, col
		for _, r := range rs[pos:j] {
			advancePos(r)
		}
		switch t {
		case "WS", "EOL", "COMMENT":
		default:
			out.Toks = append(out.Toks, simTok{t, lex, startRune, startByte, sl, sc})
		}
	}
	out.End = "EOF"
	return out
}

// automaton-driven input generation
type lexGen struct {
	d      *eDFA
	owner  map[int]string
	r      *rng
	accept [][]rune // some accepted lexemes per terminal
}

func (g *lexGen) walk(maxLen int, wantAccept bool) []rune {
	for try := 0; try < 20; try++ {
		st := g.d.start
		var out []rune
		for len(out) < maxLen {
			m := g.d.trans[st]
			if len(m) == 0 {
				break
			}
			ks := make([]rune, 0, len(m))
			for k := range m {
				ks = append(ks, k)
			}
			// deterministic order before picking
			sort.Slice(ks, func(i, j int) bool { return ks[i] < ks[j] })
			k := ks[g.r.intn(len(ks))]
			if k == 0 {
				continue
			}
			out = append(out, k)
			st = m[k]
			if _, acc := g.owner[st]; acc && wantAccept && g.r.chance(1, 3) {
				return out
			}
		}
		_, acc := g.owner[st]
		if acc == wantAccept && len(out) > 0 {
			return out
		}
	}
	return nil
}

func (g *lexGen) input(nTok int) string {
	var b strings.Builder
	for i := 0; i < nTok; i++ {
		switch k := g.r.intn(20); {
		case k < 14:
			b.WriteString(string(g.walk(8, true)))
		case k < 16:
			b.WriteString(string(g.walk(6, false))) // near miss: dead end in a non-accepting state
		case k < 17:
			b.WriteString(pick(g.r, []string{"é", "€", "😀", " ", "\v", "\f", " ", "\u0085", "~", "^", "\x7f", "\x01"}))
		default:
			b.WriteString(string(g.walk(3, true)))
		}
		switch g.r.intn(6) {
		case 0:
		case 1:
			b.WriteString("\n")
		case 2:
			b.WriteString("\t")
		case 3:
			b.WriteString("\r\n")
		default:
			b.WriteString(" ")
		}
	}
	return b.String()
}

func compareLexing(sim simResult, got map[string]any) (string, any) {
	end, _ := got["end"].(string)
	if strings.HasPrefix(end, "PANIC") || strings.HasPrefix(end, "RUNAWAY") || strings.HasPrefix(end, "New:") {
		return "driver reports " + end, "tokens then " + sim.End
	}
	toksAny, _ := got["toks"].([]any)
	byteBased, runeBased := true, true
	for i := 0; i < len(sim.Toks) && i < len(toksAny); i++ {
		g, _ := toksAny[i].(map[string]any)
		s := sim.Toks[i]
		gt, _ := g["t"].(string)
		gl, _ := g["l"].(string)
		go_, _ := g["o"].(float64)
		gln, _ := g["ln"].(float64)
		gc, _ := g["c"].(float64)
		if gt != s.T || gl != s.L || int(gln) != s.Ln || int(gc) != s.Col {
			return fmt.Sprintf("token #%d is (%s %q line %d col %d)", i, gt, gl, int(gln), int(gc)), fmt.Sprintf("(%s %q line %d col %d)", s.T, s.L, s.Ln, s.Col)
		}
		if int(go_) != s.OByte {
			byteBased = false
		}
		if int(go_) != s.ORune {
			runeBased = false
		}
		if !byteBased && !runeBased {
			return fmt.Sprintf("token #%d has offset %d", i, int(go_)), fmt.Sprintf("%d (runes) or %d (bytes), consistently within the stream", s.ORune, s.OByte)
		}
	}
	if len(toksAny) > len(sim.Toks) {
		return fmt.Sprintf("extra token #%d %v", len(sim.Toks), toksAny[len(sim.Toks)]), fmt.Sprintf("%d tokens then %s", len(sim.Toks), sim.End)
	}
	if len(toksAny) < len(sim.Toks) {
		return fmt.Sprintf("stream ended after %d tokens with %q", len(toksAny), end), fmt.Sprintf("token #%d %+v", len(toksAny), sim.Toks[len(toksAny)])
	}
	if sim.End == "EOF" {
		if end != "EOF" {
			return "stream ends with " + end, "end of input after the last token"
		}
		return "", nil
	}
	if !strings.HasPrefix(end, "ERR") {
		return "stream ends with " + end, fmt.Sprintf("a lexical error at line %d column %d", sim.ErrLn, sim.ErrCol)
	}
	want := fmt.Sprintf(":%d:%d", sim.ErrLn, sim.ErrCol)
	if !strings.Contains(end, want) {
		return "error " + end, fmt.Sprintf("a lexical error at line %d column %d", sim.ErrLn, sim.ErrCol)
	}
	return "", nil
}

func runC19(c *ctx) {
	root, err := os.MkdirTemp("", "verif-c19-")
	if err != nil {
		c.inconclusive("mktemp")
		return
	}
	defer os.RemoveAll(root)
	specs := emitSpecs(c, true)
	pkgs := emitBatch(c, root, specs)
	var usable []*emitted
	for _, e := range pkgs {
		if e.ok && e.dfa != nil {
			// exclude automata that accept the empty string
			if _, acc := e.owner[e.dfa.start]; acc {
				continue
			}
			usable = append(usable, e)
		}
	}
	bin, bout, berr := buildDriver(root, usable)
	if berr != nil {
		c.inconclusive("emitted packages do not build (C08's business)")
		c.note("build: %s", firstLines(bout, 10))
		return
	}
	r := c.rng("inputs")
	type job struct {
		e     *emitted
		input string
		chunk int
		name  string
	}
	var jobs []job
	sweeps, sweptBlank := 0, 0
	flush := func() {
		// run in batches per driver process
		const batch = 100
		type batchRes struct {
			res []map[string]any
			err error
		}
		nb := (len(jobs) + batch - 1) / batch
		results := make([]batchRes, nb)
		sem := make(chan struct{}, 14)
		var wg sync.WaitGroup
		for b := 0; b < nb; b++ {
			wg.Add(1)
			go func(b int) {
				defer wg.Done()
				sem <- struct{}{}
				defer func() { <-sem }()
				i, j := b*batch, (b+1)*batch
				if j > len(jobs) {
					j = len(jobs)
				}
				var reqs []map[string]any
				for _, jb := range jobs[i:j] {
					reqs = append(reqs, map[string]any{"pkg": jb.e.idx, "mode": "lex", "input": hexOf(jb.input), "chunk": jb.chunk})
				}
				r, err := runDriver(bin, reqs)
				results[b] = batchRes{r, err}
			}(b)
		}
		wg.Wait()
		for b := 0; b < nb; b++ {
			i, j := b*batch, (b+1)*batch
			if j > len(jobs) {
				j = len(jobs)
			}
			reqs := jobs[i:j]
			res, err := results[b].res, results[b].err
			if err != nil {
				// a process-fatal crash of the emitted code: find the request that was being processed
				k := len(res)
				if k < len(reqs) {
					jb := jobs[i+k]
					c.violate(violation{Case: jb.e.spec.name + "/" + jb.name, Input: map[string]any{"spec": jb.e.spec.text, "input": jb.input}, Observed: "the driver process died: " + err.Error(), Expected: "a token stream"})
				}
				continue
			}
			for k, jb := range jobs[i:j] {
				if k >= len(res) {
					break
				}
				c.eval()
				if !utf8.ValidString(jb.input) {
					end, _ := res[k]["end"].(string)
					if end == "" || strings.HasPrefix(end, "PANIC") || strings.HasPrefix(end, "RUNAWAY") {
						c.violate(violation{Case: jb.e.spec.name + "/" + jb.name, Input: map[string]any{"spec": jb.e.spec.name, "input": jb.input}, Observed: "on invalid UTF-8: " + end, Expected: "terminates with an error or EOF"})
					}
					continue
				}
				sim := simulateLexer(jb.e.dfa, jb.e.owner, jb.input)
				if len(sim.Toks) >= 2 || (sim.End == "ERR" && len(sim.Toks) >= 1) {
					c.nontrivial(jb.e.spec.name + "\x00" + jb.input)
				}
				c.count("tokens_expected", int64(len(sim.Toks)))
				if d, exp := compareLexing(sim, res[k]); d != "" {
					in := jb.input
					if len(in) > 400 {
						in = fmt.Sprintf("%q…(%d bytes)…%q", in[:60], len(in)-260, in[len(in)-200:])
					}
					c.violate(violation{Case: jb.e.spec.name + "/" + jb.name, Input: map[string]any{"spec": jb.e.spec.text, "input": in, "read_chunk": jb.chunk}, Observed: d, Expected: exp})
				}
				if c.res.Evaluations%499 == 1 {
					in := jb.input
					if len(in) > 200 {
						in = in[:80] + "…" + in[len(in)-80:]
					}
					c.sample(map[string]any{"spec": jb.e.spec.name, "input": in, "tokens": len(sim.Toks), "end": sim.End})
				}
			}
		}
		jobs = jobs[:0]
	}
	fullSweeps := 0
	for _, e := range usable {
		if len(jobs) >= 8000 {
			flush() // earlier specifications' jobs: run, judge, forget (bounds memory)
		}
		g := &lexGen{d: e.dfa, owner: e.owner, r: r}
		add := func(name, in string, chunk int) { jobs = append(jobs, job{e, in, chunk, name}) }
		add("empty", "", 0)
		add("blank-only", " \n\t\r\n ", 0)
		nIn := c.n(120, 1500)
		for i := 0; i < nIn; i++ {
			in := g.input(1 + r.intn(7))
			if i%2 == 0 {
				in = strings.TrimRight(in, " \n\t\r")
			}
			chunk := 0
			if i%5 == 0 {
				chunk = 1 + r.intn(7)
			}
			if i%5 == 1 {
				chunk = -(1 + r.intn(5000)) // end of input reported together with the last bytes
			}
			add(fmt.Sprintf("walk%d", i), in, chunk)
		}
		// input ending inside a token / invalid UTF-8 (termination only)
		add("invalid-utf8", string(g.walk(4, true))+"\xff"+string(g.walk(4, true)), 0)
		add("invalid-utf8-2", "\xc3", 0)
		// lexemes as long as the reader's documented limit allows: lexeme plus the character read ahead fill one half of the
		// buffer (4096 bytes) exactly, or stay just below it
		{
			var loop rune
			for _, cand := range []rune{'a', 'x', '1', '0', 'z', 'q', 'k'} {
				if s1 := e.dfa.step(e.dfa.start, cand); s1 >= 0 {
					if _, acc := e.owner[s1]; acc && e.dfa.step(s1, cand) == s1 {
						loop = cand
						break
					}
				}
			}
			if loop != 0 {
				for _, n := range []int{4000, 4090, 4092, 4093, 4094, 4095} {
					for _, after := range []string{"", " ", "\n", "→", "é"} {
						if n+len(after) > 4096 {
							continue
						}
						for _, pad := range []int{0, 1, 3, 4090} {
							add(fmt.Sprintf("long-lexeme-%d+%q/pad%d", n, after, pad), strings.Repeat(" ", pad)+strings.Repeat(string(loop), n)+after+" "+string(loop), 0)
						}
					}
				}
				c.count("specifications_with_lexemes_at_the_buffer_limit", 1)
			}
		}
		// a token that STARTS with a multi-byte character, placed so that this character straddles each buffer boundary,
		// with more than a buffer of input after it
		{
			var mb string
			for try := 0; try < 200 && mb == ""; try++ {
				if w := g.walk(6, true); len(w) > 0 && w[0] >= 0x80 {
					mb = string(w)
				}
			}
			if mb != "" {
				filler := ""
				for len(filler) < 9000 {
					filler += string(g.walk(8, true)) + " "
				}
				for _, b := range []int{4096, 8192, 12288, 16384, 24576} {
					for p := b - 4; p <= b+1; p++ {
						add(fmt.Sprintf("multibyte-at-%d", p), strings.Repeat(" ", p)+mb+" "+filler, 0)
						add(fmt.Sprintf("multibyte-at-%d/nl", p), strings.Repeat("\n", p)+mb+" "+filler, 0)
					}
				}
				c.count("specifications_with_multi_byte_token_starts_swept_across_buffer_boundaries", 1)
			}
		}
		// padding sweep: tokens across the buffer boundaries
		body := ""
		for len(body) < 120 {
			body += string(g.walk(8, true)) + " "
		}
		body = strings.TrimRight(body, " ")
		// a specification whose tokens match blanks turns every blank of the padding into a skipped token (one level of
		// recursion in the emitted NextToken each): such sweeps are slow and are kept short
		blankTokens := e.dfa.step(e.dfa.start, ' ') >= 0
		sweeps++
		if c.quick() && ((blankTokens && sweptBlank >= 1) || (!blankTokens && sweeps-sweptBlank > 3)) {
			continue
		}
		if c.thorough() && ((blankTokens && sweptBlank >= 4) || (!blankTokens && sweeps-sweptBlank > 16)) {
			continue
		}
		fullSweeps++
		if blankTokens {
			sweptBlank++
		}
		var pads []int
		maxPad := 16384 + 40
		window := 140
		if blankTokens {
			maxPad, window = 8192+40, 24
		}
		for p := 0; p <= maxPad; p++ {
			near := false
			for _, b := range []int{4096, 8192, 12288, 16384} {
				if p >= b-window && p <= b+8 {
					near = true
				}
			}
			if blankTokens && !near && p%512 != 0 {
				continue
			}
			if c.thorough() && fullSweeps <= 3 {
				// the first specifications: every padding up to one buffer, every 4th up to three
				near = near || p <= 4096+160 || (p <= 3*4096+16 && p%4 == 0)
			}
			if near || p%16 == 0 && (c.thorough() || p%64 == 0) {
				pads = append(pads, p)
			}
		}
		for _, p := range pads {
			pad := strings.Repeat(" ", p)
			if p%3 == 1 && (p <= 400 || p%256 == 1) {
				pad = strings.Repeat(" \n", p/2) + strings.Repeat(" ", p%2)
			}
			chunk := 0
			if p%7 == 0 {
				chunk = 1000 + p%613
			}
			if p%7 == 3 {
				chunk = -(700 + p%3511)
			}
			for _, b := range []int{4096, 8192, 12288, 16384} {
				if p >= b-4 && p <= b+1 {
					// the input goes on for more than a buffer after the boundary (a reader may then fill the whole buffer)
					add(fmt.Sprintf("pad%d+long-tail", p), pad+body+" "+strings.Repeat(body+" ", 9000/(len(body)+1)+1), 0)
				}
			}
			add(fmt.Sprintf("pad%d", p), pad+body, chunk)
			if p%2 == 0 {
				add(fmt.Sprintf("pad%d+nl", p), pad+body+"\n", chunk)
			}
		}
	}

	flush()
}

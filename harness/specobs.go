package main

// Neutral observation of what spec.Parse derives from a text (used by C01, C06, C07, C11, C12, C13, C15, C17).

import (
	"fmt"
	"sort"
	"strings"

	"github.com/moorara/algo/grammar"
	"github.com/moorara/algo/parser/lr"

	"github.com/gardenbed/emerge/internal/ebnf/parser/spec"
)

type defObs struct {
	Terminal string
	Value    string
	IsRegex  bool
}

type precObs struct {
	Assoc string
	Terms []string // terminal handles (sorted)
	Prods []string // production handles rendered "head → body" (sorted)
	PProd []cprod
}

type specObs struct {
	Err   string
	Panic string
	Name  string
	Prods []cprod // body symbols: terminals as "t:<name>", non-terminals plain
	Terms []string
	NTs   []string
	Start string
	Defs  []defObs
	Prec  []precObs
	S     *spec.Spec
}

func symName(s grammar.Symbol) string {
	switch v := s.(type) {
	case grammar.Terminal:
		return "t:" + string(v)
	case grammar.NonTerminal:
		return string(v)
	}
	return fmt.Sprintf("?%v", s)
}

func prodObs(p *grammar.Production) cprod {
	c := cprod{Head: string(p.Head)}
	for _, s := range p.Body {
		c.Body = append(c.Body, symName(s))
	}
	return c
}

func observeSpec(text string) specObs {
	var o specObs
	pv, stack := safely(func() {
		s, err := spec.Parse(fileName, strings.NewReader(text))
		if err != nil {
			o.Err = err.Error()
			return
		}
		if s == nil {
			o.Err = "HARNESS: nil spec without error"
			return
		}
		o.S = s
		fillSpecObs(&o, s)
	})
	if pv != nil {
		o.Panic = fmt.Sprintf("%v | %s", pv, firstLines(stack, 10))
	}
	return o
}

func fillSpecObs(o *specObs, s *spec.Spec) {
	o.Name = s.Name
	if s.Grammar != nil {
		o.Start = string(s.Grammar.Start)
		for p := range s.Grammar.Productions.All() {
			o.Prods = append(o.Prods, prodObs(p))
		}
		sort.Slice(o.Prods, func(i, j int) bool { return o.Prods[i].String() < o.Prods[j].String() })
		for t := range s.Grammar.Terminals.All() {
			o.Terms = append(o.Terms, string(t))
		}
		sort.Strings(o.Terms)
		for n := range s.Grammar.NonTerminals.All() {
			o.NTs = append(o.NTs, string(n))
		}
		sort.Strings(o.NTs)
	}
	for _, d := range s.Definitions {
		o.Defs = append(o.Defs, defObs{string(d.Terminal), d.Value, d.IsRegex})
	}
	for _, l := range s.Precedences {
		po := precObs{}
		switch l.Associativity {
		case lr.LEFT:
			po.Assoc = "@left"
		case lr.RIGHT:
			po.Assoc = "@right"
		case lr.NONE:
			po.Assoc = "@none"
		default:
			po.Assoc = fmt.Sprintf("assoc(%d)", l.Associativity)
		}
		if l.Handles != nil {
			for h := range l.Handles.All() {
				if h.Production != nil {
					cp := prodObs(h.Production)
					po.Prods = append(po.Prods, cp.String())
					po.PProd = append(po.PProd, cp)
				} else if h.Terminal != nil {
					po.Terms = append(po.Terms, string(*h.Terminal))
				}
			}
		}
		sort.Strings(po.Terms)
		sort.Strings(po.Prods)
		sort.Slice(po.PProd, func(i, j int) bool { return po.PProd[i].String() < po.PProd[j].String() })
		o.Prec = append(o.Prec, po)
	}
}

// render is the canonical rendering used for equality across layouts / runs / orders.
func (o specObs) render() string {
	var b strings.Builder
	if o.Panic != "" {
		return "PANIC " + o.Panic
	}
	if o.Err != "" {
		return "ERROR " + o.Err
	}
	fmt.Fprintf(&b, "name %s\nstart %s\n", o.Name, o.Start)
	fmt.Fprintf(&b, "terminals %q\nnonterminals %q\n", o.Terms, o.NTs)
	for _, p := range o.Prods {
		fmt.Fprintf(&b, "  %s\n", p)
	}
	for _, d := range o.Defs {
		fmt.Fprintf(&b, "def %q = %q regex=%v\n", d.Terminal, d.Value, d.IsRegex)
	}
	for i, p := range o.Prec {
		fmt.Fprintf(&b, "level %d %s terms=%q prods=%q\n", i, p.Assoc, p.Terms, p.Prods)
	}
	return b.String()
}

package main

// R3 - context-free kit (reference): bounded languages by least fixpoint, over EBNF operator trees and over plain
// productions. A sentence is a sequence of terminal names; languages are sets of sentences of length <= k.

import (
	"sort"
	"strings"
)

// Sentences are strings with one byte per terminal (termTab maps terminal names to bytes), so that
// concatenation and length are the string's own.
type lang map[string]struct{}

type termTab struct {
	ids   map[string]byte
	names []string
}

func newTermTab() *termTab { return &termTab{ids: map[string]byte{}} }

func (t *termTab) id(name string) string {
	if b, ok := t.ids[name]; ok {
		return string([]byte{b})
	}
	if len(t.names) >= 250 {
		panic("too many terminals for the bounded-language kit")
	}
	b := byte(len(t.names) + 1)
	t.ids[name] = b
	t.names = append(t.names, name)
	return string([]byte{b})
}

func (t *termTab) show(s string) string {
	if s == "" {
		return "ε"
	}
	var xs []string
	for i := 0; i < len(s); i++ {
		xs = append(xs, t.names[s[i]-1])
	}
	return strings.Join(xs, " ")
}

func sentLen(s string) int { return len(s) }

func joinSent(a, b string) string { return a + b }

func langOf(ss ...string) lang {
	l := lang{}
	for _, s := range ss {
		l[s] = struct{}{}
	}
	return l
}

func (l lang) union(m lang) (lang, bool) {
	changed := false
	for s := range m {
		if _, ok := l[s]; !ok {
			l[s] = struct{}{}
			changed = true
		}
	}
	return l, changed
}

func langConcat(a, b lang, k int) lang {
	out := lang{}
	for x := range a {
		lx := sentLen(x)
		if lx > k {
			continue
		}
		for y := range b {
			if lx+sentLen(y) <= k {
				out[joinSent(x, y)] = struct{}{}
			}
		}
	}
	return out
}

func langStar(a lang, k int) lang {
	s := langOf("")
	for {
		n := langConcat(s, a, k)
		if _, ch := s.union(n); !ch {
			return s
		}
	}
}

func (l lang) sorted() []string {
	out := make([]string, 0, len(l))
	for s := range l {
		out = append(out, s)
	}
	sort.Slice(out, func(i, j int) bool {
		li, lj := sentLen(out[i]), sentLen(out[j])
		if li != lj {
			return li < lj
		}
		return out[i] < out[j]
	})
	return out
}

// langDiff returns a shortest sentence in a but not in b ("" , false if none).
func langMinus(a, b lang) (string, bool) {
	best, found := "", false
	for s := range a {
		if _, ok := b[s]; !ok {
			if !found || sentLen(s) < sentLen(best) || (sentLen(s) == sentLen(best) && s < best) {
				best, found = s, true
			}
		}
	}
	return best, found
}

// ---------------------------------------------------------------- EBNF operator trees

// termNameOf gives the terminal name emerge uses for a leaf: the raw lexeme for string literals, the token name for tokens.
func termNameOf(e *rexpr) string { return e.Name }

func exprLang(e *rexpr, env map[string]lang, k int, tt *termTab) lang {
	if e == nil {
		return langOf("")
	}
	switch e.Kind {
	case xConcat:
		l := langOf("")
		for _, kid := range e.Kids {
			l = langConcat(l, exprLang(kid, env, k, tt), k)
			if len(l) == 0 {
				break
			}
		}
		return l
	case xAlt:
		l := lang{}
		for _, kid := range e.Kids {
			l.union(exprLang(kid, env, k, tt))
		}
		return l
	case xEmpty:
		return langOf("")
	case xGroup:
		return exprLang(e.Kids[0], env, k, tt)
	case xOpt:
		l := langOf("")
		l.union(exprLang(e.Kids[0], env, k, tt))
		return l
	case xStar:
		return langStar(exprLang(e.Kids[0], env, k, tt), k)
	case xPlus:
		a := exprLang(e.Kids[0], env, k, tt)
		return langConcat(a, langStar(a, k), k)
	case xNonTerm:
		if l, ok := env[e.Name]; ok {
			return l // read-only use by all callers
		}
		return lang{}
	default: // xString, xToken
		if k >= 1 {
			return langOf(tt.id(termNameOf(e)))
		}
		return lang{}
	}
}

// allRules returns every rule occurrence of a specification: declarations and the rules written inside <> handles.
func allRules(g *rgrammar) []*rrule {
	var out []*rrule
	for _, d := range g.Decls {
		switch d.Kind {
		case "rule":
			out = append(out, d.Rule)
		case "directive":
			for _, h := range d.Handles {
				if h.IsRule {
					out = append(out, h.Rule)
				}
			}
		}
	}
	return out
}

// ebnfLanguages computes, for every rule name, the set of terminal strings of length <= k the EBNF text denotes.
func ebnfLanguages(g *rgrammar, k int, tt *termTab) map[string]lang {
	rules := allRules(g)
	env := map[string]lang{}
	for _, r := range rules {
		if env[r.LHS] == nil {
			env[r.LHS] = lang{}
		}
	}
	for changed := true; changed; {
		changed = false
		for _, r := range rules {
			l := exprLang(r.RHS, env, k, tt)
			if _, ch := env[r.LHS].union(l); ch {
				changed = true
			}
		}
	}
	return env
}

// ---------------------------------------------------------------- plain productions

// cfgLanguages computes the bounded language of every non-terminal of a plain CFG.
// Body symbols: "t:<name>" are terminals, everything else a non-terminal.
func cfgLanguages(prods []cprod, k int, tt *termTab) map[string]lang {
	env := map[string]lang{}
	for _, p := range prods {
		if env[p.Head] == nil {
			env[p.Head] = lang{}
		}
	}
	for changed := true; changed; {
		changed = false
		for _, p := range prods {
			l := langOf("")
			for _, s := range p.Body {
				if strings.HasPrefix(s, "t:") {
					l = langConcat(l, langOf(tt.id(s[2:])), k)
				} else {
					l = langConcat(l, env[s], k)
				}
				if len(l) == 0 {
					break
				}
			}
			if _, ch := env[p.Head].union(l); ch {
				changed = true
			}
		}
	}
	return env
}

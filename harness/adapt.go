package main

// Adapters from emerge / moorara-algo objects to the harness' neutral representations.

import (
	"sort"

	auto "github.com/moorara/algo/automata"
)

// eDFA is a plain copy of an automata.DFA (observed through its exported API only).
type eDFA struct {
	start int
	final map[int]bool
	trans map[int]map[rune]int
	alpha []rune
	nst   int
}

func fromAutoDFA(d *auto.DFA) *eDFA {
	e := &eDFA{start: int(d.Start), final: map[int]bool{}, trans: map[int]map[rune]int{}}
	for s := range d.Final.All() {
		e.final[int(s)] = true
	}
	seen := map[rune]bool{}
	states := map[int]bool{e.start: true}
	for tr := range d.Transitions() {
		s, a, t := int(tr.State), rune(tr.Symbol), int(tr.Next)
		m := e.trans[s]
		if m == nil {
			m = map[rune]int{}
			e.trans[s] = m
		}
		m[a] = t
		states[s], states[t] = true, true
		if !seen[a] {
			seen[a] = true
			e.alpha = append(e.alpha, a)
		}
	}
	for s := range e.final {
		states[s] = true
	}
	e.nst = len(states)
	sort.Slice(e.alpha, func(i, j int) bool { return e.alpha[i] < e.alpha[j] })
	return e
}

func (e *eDFA) startState() int { return e.start }
func (e *eDFA) accepting(s int) bool {
	return s >= 0 && e.final[s]
}
func (e *eDFA) alphabet() []rune { return e.alpha }
func (e *eDFA) step(s int, r rune) int {
	if s < 0 {
		return -1
	}
	if t, ok := e.trans[s][r]; ok {
		return t
	}
	return -1
}
func (e *eDFA) matches(s string) bool {
	st := e.start
	for _, r := range s {
		st = e.step(st, r)
		if st < 0 {
			return false
		}
	}
	return e.accepting(st)
}

// eNFA wraps an automata.NFA as a deterministic automaton by an independent lazy subset construction
// (so the NFA stage can be compared before emerge/the library determinises it).
type eNFA struct {
	n     *auto.NFA
	ids   map[string]int
	sets  [][]int
	acc   []bool
	trans []map[rune]int
	alpha []rune
	eps   map[int][]int
	edges map[int]map[rune][]int
	final map[int]bool
}

func fromAutoNFA(n *auto.NFA) *eNFA {
	e := &eNFA{n: n, ids: map[string]int{}, eps: map[int][]int{}, edges: map[int]map[rune][]int{}, final: map[int]bool{}}
	seen := map[rune]bool{}
	for tr := range n.Transitions() {
		s, a := int(tr.State), rune(tr.Symbol)
		for _, t := range tr.Next {
			if a == 0 { // automata.E: the library's epsilon
				e.eps[s] = append(e.eps[s], int(t))
			} else {
				m := e.edges[s]
				if m == nil {
					m = map[rune][]int{}
					e.edges[s] = m
				}
				m[a] = append(m[a], int(t))
				if !seen[a] {
					seen[a] = true
					e.alpha = append(e.alpha, a)
				}
			}
		}
	}
	for f := range n.Final.All() {
		e.final[int(f)] = true
	}
	e.intern(e.closure([]int{int(n.Start)}))
	return e
}

func (e *eNFA) closure(ss []int) []int {
	mark := map[int]bool{}
	var st []int
	for _, s := range ss {
		if !mark[s] {
			mark[s] = true
			st = append(st, s)
		}
	}
	for len(st) > 0 {
		s := st[len(st)-1]
		st = st[:len(st)-1]
		for _, t := range e.eps[s] {
			if !mark[t] {
				mark[t] = true
				st = append(st, t)
			}
		}
	}
	out := make([]int, 0, len(mark))
	for s := range mark {
		out = append(out, s)
	}
	sort.Ints(out)
	return out
}

func (e *eNFA) intern(ss []int) int {
	if len(ss) == 0 {
		return -1
	}
	k := intsKey(ss)
	if id, ok := e.ids[k]; ok {
		return id
	}
	id := len(e.sets)
	e.ids[k] = id
	e.sets = append(e.sets, ss)
	acc := false
	for _, s := range ss {
		if e.final[s] {
			acc = true
		}
	}
	e.acc = append(e.acc, acc)
	e.trans = append(e.trans, map[rune]int{})
	return id
}

func intsKey(ss []int) string {
	b := make([]byte, 0, len(ss)*4)
	for _, s := range ss {
		b = append(b, byte(s), byte(s>>8), byte(s>>16), ',')
	}
	return string(b)
}

func (e *eNFA) startState() int      { return 0 }
func (e *eNFA) accepting(s int) bool { return s >= 0 && e.acc[s] }
func (e *eNFA) alphabet() []rune     { return e.alpha }
func (e *eNFA) step(s int, r rune) int {
	if s < 0 {
		return -1
	}
	if t, ok := e.trans[s][r]; ok {
		return t
	}
	var next []int
	for _, q := range e.sets[s] {
		next = append(next, e.edges[q][r]...)
	}
	t := -1
	if len(next) > 0 {
		t = e.intern(e.closure(next))
	}
	e.trans[s][r] = t
	return t
}

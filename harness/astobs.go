package main

// Observation of emerge's typed tree (ebnf ast.Parse) in the harness' neutral types, and renderings that can be
// compared with the reference reader's typed tree.

import (
	"fmt"
	"strconv"
	"strings"

	"github.com/moorara/algo/lexer"
	"github.com/moorara/algo/parser/lr"

	ebnfparser "github.com/gardenbed/emerge/internal/ebnf/parser"
	east "github.com/gardenbed/emerge/internal/ebnf/parser/ast"
)

func posStr(p *lexer.Position) string {
	if p == nil {
		return "@-"
	}
	return fmt.Sprintf("@%d:%d:%d", p.Offset, p.Line, p.Column)
}

func tokPos(toks []rtok, i int) string {
	if i < 0 || i >= len(toks) {
		return "@-"
	}
	return fmt.Sprintf("@%d:%d:%d", toks[i].Off, toks[i].Line, toks[i].Col)
}

// ---------------------------------------------------------------- emerge side

func astRHS(r east.RHS, withPos bool) string {
	pp := func(p *lexer.Position) string {
		if !withPos {
			return ""
		}
		return posStr(p)
	}
	switch v := r.(type) {
	case *east.ConcatRHS:
		var xs []string
		for _, o := range v.Ops {
			xs = append(xs, astRHS(o, withPos))
		}
		return "cat[" + strings.Join(xs, " ") + "]"
	case *east.AltRHS:
		var xs []string
		for _, o := range v.Ops {
			xs = append(xs, astRHS(o, withPos))
		}
		return "alt[" + strings.Join(xs, " | ") + "]"
	case *east.OptRHS:
		return "opt" + pp(v.Position) + "[" + astRHS(v.Op, withPos) + "]"
	case *east.StarRHS:
		return "star" + pp(v.Position) + "[" + astRHS(v.Op, withPos) + "]"
	case *east.PlusRHS:
		return "plus" + pp(v.Position) + "[" + astRHS(v.Op, withPos) + "]"
	case *east.NonTerminalRHS:
		return "nt(" + v.NonTerminal + ")" + pp(v.Position)
	case *east.TerminalRHS:
		return "t(" + v.Terminal + ")" + pp(v.Position)
	case *east.EmptyRHS:
		return "ε"
	case nil:
		return "<nil rhs>"
	}
	return fmt.Sprintf("?%T", r)
}

func assocStr(a lr.Associativity) string {
	switch a {
	case lr.LEFT:
		return "@left"
	case lr.RIGHT:
		return "@right"
	case lr.NONE:
		return "@none"
	}
	return fmt.Sprintf("assoc(%d)", a)
}

func astRender(g *east.Grammar, withPos bool) string {
	pp := func(p *lexer.Position) string {
		if !withPos {
			return ""
		}
		return posStr(p)
	}
	var b strings.Builder
	fmt.Fprintf(&b, "grammar %s%s\n", g.Name, pp(g.Position))
	for _, d := range g.Decls {
		switch v := d.(type) {
		case *east.StringTokenDecl:
			fmt.Fprintf(&b, "token %s%s = string %q\n", v.Name, pp(v.Position), v.Value)
		case *east.RegexTokenDecl:
			fmt.Fprintf(&b, "token %s%s = regex %q\n", v.Name, pp(v.Position), v.Regex)
		case *east.PrecedenceDecl:
			fmt.Fprintf(&b, "%s%s", assocStr(v.Associativity), pp(v.Position))
			for _, h := range v.Handles {
				switch x := h.(type) {
				case *east.TerminalHandle:
					fmt.Fprintf(&b, " t(%s)%s", x.Terminal, pp(x.Position))
				case *east.ProductionHandle:
					fmt.Fprintf(&b, " <%s = %s>%s", x.LHS, astRHS(x.RHS, withPos), pp(x.Position))
				default:
					fmt.Fprintf(&b, " ?%T", h)
				}
			}
			b.WriteString("\n")
		case *east.RuleDecl:
			fmt.Fprintf(&b, "rule %s%s = %s\n", v.LHS, pp(v.Position), astRHS(v.RHS, withPos))
		default:
			fmt.Fprintf(&b, "?%T\n", d)
		}
	}
	return b.String()
}

type astObs struct {
	Err   string
	Panic string
	G     *east.Grammar
}

func observeAST(text string) astObs {
	var o astObs
	pv, stack := safely(func() {
		g, err := east.Parse(fileName, strings.NewReader(text))
		if err != nil {
			o.Err = err.Error()
			return
		}
		if g == nil {
			o.Err = "HARNESS: nil grammar without error"
			return
		}
		o.G = g
	})
	if pv != nil {
		o.Panic = fmt.Sprintf("%v | %s", pv, firstLines(stack, 10))
	}
	return o
}

// ---------------------------------------------------------------- reference side (same rendering)

// normExpr applies the representational normalisation both sides agree on: groups are transparent, nested
// concatenations / alternations are flattened.
func normExpr(e *rexpr) *rexpr {
	if e == nil {
		return nil
	}
	switch e.Kind {
	case xGroup:
		return normExpr(e.Kids[0])
	case xConcat, xAlt:
		n := &rexpr{Kind: e.Kind, Tok: e.Tok}
		for _, k := range e.Kids {
			nk := normExpr(k)
			if nk.Kind == e.Kind {
				n.Kids = append(n.Kids, nk.Kids...)
			} else {
				n.Kids = append(n.Kids, nk)
			}
		}
		return n
	case xOpt, xStar, xPlus:
		return &rexpr{Kind: e.Kind, Tok: e.Tok, Kids: []*rexpr{normExpr(e.Kids[0])}}
	}
	return e
}

func refRHS(e *rexpr, toks []rtok, withPos bool) string {
	pp := func(i int) string {
		if !withPos {
			return ""
		}
		return tokPos(toks, i)
	}
	if e == nil {
		return "ε"
	}
	switch e.Kind {
	case xConcat, xAlt:
		var xs []string
		for _, k := range e.Kids {
			xs = append(xs, refRHS(k, toks, withPos))
		}
		if e.Kind == xConcat {
			return "cat[" + strings.Join(xs, " ") + "]"
		}
		return "alt[" + strings.Join(xs, " | ") + "]"
	case xEmpty:
		return "ε"
	case xOpt:
		return "opt" + pp(e.Tok) + "[" + refRHS(e.Kids[0], toks, withPos) + "]"
	case xStar:
		return "star" + pp(e.Tok) + "[" + refRHS(e.Kids[0], toks, withPos) + "]"
	case xPlus:
		return "plus" + pp(e.Tok) + "[" + refRHS(e.Kids[0], toks, withPos) + "]"
	case xNonTerm:
		return "nt(" + e.Name + ")" + pp(e.Tok)
	case xString:
		return "t(" + strconv.Quote(e.Name) + ")" + pp(e.Tok)
	case xToken:
		return "t(" + e.Name + ")" + pp(e.Tok)
	}
	return "?"
}

// refRender renders the reference typed tree in the same form as astRender.
func refRender(g *rgrammar, toks []rtok, withPos bool) string {
	pp := func(i int) string {
		if !withPos {
			return ""
		}
		return tokPos(toks, i)
	}
	var b strings.Builder
	fmt.Fprintf(&b, "grammar %s%s\n", g.Name, pp(0))
	for _, d := range g.Decls {
		switch d.Kind {
		case "token":
			switch d.ValKind {
			case "STRING":
				fmt.Fprintf(&b, "token %s%s = string %q\n", d.Name, pp(d.Tok), d.Value)
			case "REGEX":
				fmt.Fprintf(&b, "token %s%s = regex %q\n", d.Name, pp(d.Tok), d.Value)
			default:
				fmt.Fprintf(&b, "token %s%s = regex %q\n", d.Name, pp(d.Tok), ebnfparser.Predefs[d.Value])
			}
		case "directive":
			fmt.Fprintf(&b, "%s%s", d.Assoc, pp(d.Tok))
			for _, h := range d.Handles {
				switch {
				case h.IsRule:
					rhs := "ε"
					if h.Rule.RHS != nil {
						rhs = refRHS(normExpr(h.Rule.RHS), toks, withPos)
					}
					fmt.Fprintf(&b, " <%s = %s>%s", h.Rule.LHS, rhs, pp(h.Tok))
				case h.IsStr:
					fmt.Fprintf(&b, " t(%s)%s", strconv.Quote(h.Term), pp(h.Tok))
				default:
					fmt.Fprintf(&b, " t(%s)%s", h.Term, pp(h.Tok))
				}
			}
			b.WriteString("\n")
		case "rule":
			rhs := "ε"
			if d.Rule.RHS != nil {
				rhs = refRHS(normExpr(d.Rule.RHS), toks, withPos)
			}
			fmt.Fprintf(&b, "rule %s%s = %s\n", d.Rule.LHS, pp(d.Rule.Tok), rhs)
		}
	}
	return b.String()
}

// ---------------------------------------------------------------- emerge's typed tree -> reference types (for the round trip)

func astToRexpr(r east.RHS) *rexpr {
	switch v := r.(type) {
	case *east.ConcatRHS:
		e := &rexpr{Kind: xConcat}
		for _, o := range v.Ops {
			k := astToRexpr(o)
			if k.Kind == xAlt || k.Kind == xConcat {
				k = &rexpr{Kind: xGroup, Kids: []*rexpr{k}}
			}
			e.Kids = append(e.Kids, k)
		}
		if len(e.Kids) == 1 {
			return e.Kids[0]
		}
		return e
	case *east.AltRHS:
		e := &rexpr{Kind: xAlt}
		for _, o := range v.Ops {
			k := astToRexpr(o)
			if k.Kind == xAlt {
				k = &rexpr{Kind: xGroup, Kids: []*rexpr{k}}
			}
			e.Kids = append(e.Kids, k)
		}
		return e
	case *east.OptRHS:
		return &rexpr{Kind: xOpt, Kids: []*rexpr{astToRexpr(v.Op)}}
	case *east.StarRHS:
		return &rexpr{Kind: xStar, Kids: []*rexpr{astToRexpr(v.Op)}}
	case *east.PlusRHS:
		return &rexpr{Kind: xPlus, Kids: []*rexpr{astToRexpr(v.Op)}}
	case *east.NonTerminalRHS:
		return &rexpr{Kind: xNonTerm, Name: v.NonTerminal}
	case *east.TerminalRHS:
		if strings.HasPrefix(v.Terminal, `"`) {
			if u, err := strconv.Unquote(v.Terminal); err == nil {
				return &rexpr{Kind: xString, Name: u}
			}
		}
		return &rexpr{Kind: xToken, Name: v.Terminal}
	case *east.EmptyRHS:
		return &rexpr{Kind: xEmpty}
	}
	return &rexpr{Kind: xEmpty}
}

// astToGrammar converts emerge's typed tree to the reference types so that it can be printed back to EBNF.
// predefOf maps an expanded predefined pattern back to its $NAME when unambiguous (else the pattern is printed as /regex/).
func astToGrammar(g *east.Grammar) *rgrammar {
	out := &rgrammar{Name: g.Name}
	ruleOf := func(lhs string, rhs east.RHS) *rrule {
		r := &rrule{LHS: lhs}
		if _, empty := rhs.(*east.EmptyRHS); !empty && rhs != nil {
			e := astToRexpr(rhs)
			// an alternation whose first operand is empty cannot be written; the typed tree never has one
			r.RHS = e
		}
		return r
	}
	for _, d := range g.Decls {
		switch v := d.(type) {
		case *east.StringTokenDecl:
			out.Decls = append(out.Decls, rdecl{Kind: "token", Name: v.Name, ValKind: "STRING", Value: v.Value})
		case *east.RegexTokenDecl:
			// a pattern that is the expansion of a predefined name is written back as that name (it may contain '/',
			// which cannot be written between pattern delimiters)
			written := false
			for _, name := range []string{"$WS", "$DIGIT", "$LETTER", "$ID", "$NUMBER", "$STRING", "$COMMENT"} {
				if ebnfparser.Predefs[name] == v.Regex {
					out.Decls = append(out.Decls, rdecl{Kind: "token", Name: v.Name, ValKind: "PREDEF", Value: name})
					written = true
					break
				}
			}
			if !written {
				out.Decls = append(out.Decls, rdecl{Kind: "token", Name: v.Name, ValKind: "REGEX", Value: v.Regex})
			}
		case *east.PrecedenceDecl:
			dd := rdecl{Kind: "directive", Assoc: assocStr(v.Associativity)}
			for _, h := range v.Handles {
				switch x := h.(type) {
				case *east.TerminalHandle:
					if strings.HasPrefix(x.Terminal, `"`) {
						if u, err := strconv.Unquote(x.Terminal); err == nil {
							dd.Handles = append(dd.Handles, rhandle{Term: u, IsStr: true})
							continue
						}
					}
					dd.Handles = append(dd.Handles, rhandle{Term: x.Terminal})
				case *east.ProductionHandle:
					dd.Handles = append(dd.Handles, rhandle{IsRule: true, Rule: ruleOf(x.LHS, x.RHS)})
				}
			}
			out.Decls = append(out.Decls, dd)
		case *east.RuleDecl:
			out.Decls = append(out.Decls, rdecl{Kind: "rule", Rule: ruleOf(v.LHS, v.RHS)})
		}
	}
	return out
}

package main

// C08 - the emitted lexer is valid stand-alone Go encoding exactly the token automaton.
// C19 - compiled and run, the emitted lexer tokenises input exactly as the token automaton says.
// Shared machinery: packages are emitted by the REAL CLI into a run-time scratch module without requirements,
// a generated in-package dump file and a generated driver are added, one `go build` per batch, the driver runs as a
// child process over a case file.

import (
	"bytes"
	"encoding/hex"
	"encoding/json"
	"fmt"
	"go/parser"
	"go/token"
	"os"
	"os/exec"
	"path/filepath"
	"sort"
	"strconv"
	"strings"

	"github.com/gardenbed/emerge/internal/ebnf/parser/spec"
)

func init() {
	register(&property{
		id:    "C08",
		level: "exploration",
		rule: "accepted specifications chosen for what Go source text finds hard: literals and classes containing ' \" \\ newline tab CR and non-ASCII / astral characters, terminals named with punctuation, terminals that end up owning no state (a pattern completely shadowed by literals, first / middle / last in definition order), every predefined pattern, keyword/identifier overlaps, tokens named WS/EOL/COMMENT, seeded well-formed specifications. " +
			"Each is emitted by the real CLI; (1) all six files must parse as Go, import only standard-library paths and the package must build in a module without requirements; (2) a generated in-package dump prints advanceDFA(s, r) for EVERY state s in [-1, N+2] and every r in (alphabet of the automaton + neighbours of each symbol + probes 0 ' \" \\ \\n \\t U+00E9 U+EEEE U+10FFFF) and the terminal evalDFA attributes to every state: " +
			"it must equal Spec.DFA() computed in-process from the same text everywhere (-1 where undefined and for states the automaton does not have; owner exactly, ERR otherwise), via a start-anchored state bijection. non-trivial = automaton has >= 4 states and >= 2 terminals; distinct by text.",
		assumptions: []string{"the Go toolchain found on PATH builds the scratch module offline (GOFLAGS=-mod=mod GOPROXY=off)", "Spec.DFA() is deterministic for a given text (C15)"},
		floorQuick:  10, floorThorough: 100,
		serial: true,
		run:    runC08,
	})
}

type emitSpec struct {
	name string
	text string
}

func emitSpecs(c *ctx, forLexing bool) []emitSpec {
	var out []emitSpec
	add := func(n, t string) { out = append(out, emitSpec{n, t}) }
	add("arith", "grammar arith;\nNUM = /[0-9]+/\nWS = $WS\n@left \"*\" \"/\"\n@left \"+\" \"-\"\nstart = e;\ne = e \"+\" e | e \"-\" e | e \"*\" e | e \"/\" e | \"(\" e \")\" | NUM;\n")
	add("keywords", "grammar kw;\nID = /[a-z][a-z0-9_]*/\nNUM = /[0-9]+(\\.[0-9]+)?/\nWS = /[ \\x09]+/\nEOL = /\\x0A|\\x0D\\x0A/\nstart = {stmt};\nstmt = \"if\" ID \"then\" stmt | \"iffy\" | \"in\" | \"int\" | ID \"=\" NUM \";\" | \"==\" | \"=\" ;\n")
	add("quotes", "grammar quotes;\nSQ = /\\x27[a-z]*\\x27/\nDQ = /\"[^\"]*\"/\nBS = /\\\\[a-z]/\nTAB = /\\x09/\nNL = /\\x0A/\nCR = /\\x0D/\nstart = {SQ | DQ | BS | TAB | NL | CR | \"\\\"\" | \"\\\\\" | \"a\\\"b\" | \"'\" };\n")
	add("nonascii", "grammar nonascii;\nEACUTE = /\\x00E9+/\nGREEK = /[\\x03B1-\\x03C9]+/\nFACE = /\\x1F600/\nMIX = /a\\x00E9?\\x4E2D/\nstart = {EACUTE | GREEK | FACE | MIX | \"x\"};\n")
	add("punctnames", "grammar punct;\nstart = {\"+\" | \"++\" | \"+=\" | \"{{\" | \"}}\" | \"<=\" | \"&&\" | \"||\" | \"!\" | \"`\" | \"'\" | \"%\" | \"#\" | \"$\" | \"@\" | \"^\" | \"~\" | \"?\" | \":\" | \",\" | \".\" | \"..\" | \"...\"};\n")
	add("shadowed-middle", "grammar shadowm;\nKW = /if|else/\nNUM = /[0-9]+/\nSTR = /\"[a-z]*\"/\nstart = {\"if\" | \"else\" | KW | NUM | STR};\n")
	add("shadowed-last", "grammar shadowl;\nNUM = /[0-9]+/\nZKEYWORDS = /if|else/\nstart = {\"if\" | \"else\" | ZKEYWORDS | NUM};\n")
	add("shadowed-two", "grammar shadowt;\nAA = /x|y/\nBB = /(z)/\nNUM = /[0-9]+/\nFLOAT = /[0-9]+\\.[0-9]+/\nstart = {\"x\" | \"y\" | \"z\" | AA | BB | NUM | FLOAT};\n")
	add("predefs", "grammar predefs;\nWS = $WS\nLETTER = $LETTER\nNUMBER = $NUMBER\nSTRING = $STRING\nCOMMENT = $COMMENT\nstart = {WS | LETTER | NUMBER | STRING | COMMENT | \"id\"};\n")
	add("predef-id", "grammar pid;\nID = $ID\nDIGIT = $DIGIT\nstart = {ID | DIGIT | \"while\" | \"_\"};\n")
	if !forLexing {
		add("nullable-star", "grammar nstar;\nAS = /a*/\nstart = {AS | \"b\"};\n")
		add("nullable-opt", "grammar nopt;\nSIGN = /(\\+|-)?/\nNUM = /[0-9]+/\nstart = {SIGN | NUM};\n")
		add("nullable-loop", "grammar nloop;\nABS = /(ab)*/\nstart = {ABS | \"c\"};\n")
	}
	add("nows", "grammar nows;\nstart = {\"a\" | \"b\" | \"ab\" | \"abc\"};\n")
	add("skipnames", "grammar skipnames;\nWS = /[ ]+/\nEOL = /;/\nCOMMENT = /#[a-z ]*/\nID = /[a-z]+/\nstart = {ID | WS | EOL | COMMENT};\n")
	add("blank-tokens", "grammar blanks;\nIND = / [a-z]/\nID = /[a-z]+/\nstart = {IND | ID | \"\\x\"};\n")
	add("classes", "grammar classes;\nHEX = /0x[[:xdigit:]]+/\nWORD = /_\\w+/\nNONSP = /![^\\s]+/\nANY = /\\?./\nUP = /[[:upper:]][[:lower:]]*/\nstart = {HEX | WORD | NONSP | ANY | UP};\n")
	add("ranges", "grammar ranges;\nAA = /[\\x20-\\x2F]+/\nBB = /[\\x5B-\\x60]/\nCC = /\\x7E\\x7F?/\nDD = /[^\\x01-\\x7E]/\nstart = {AA | BB | CC | DD};\n")
	// a class of 12,800 characters (one 'case' line of the emitted switch is longer than 64 KiB), characters in
	// U+8000..U+FFFF (three-byte sequences with a lead byte of E8 and above), full-width forms
	if !forLexing {
		// code points of the surrogate block have no rune literal of their own
		add("specials", "grammar specials;\nBOM = /\\xFEFF/\nARAB = /[\\xFE70-\\xFEFE]+/\nSEPS = /[\\x2028\\x2029\\x200B\\x200E\\x00AD]/\nNONCH = /\\xFFFE|\\xFFFF|\\x0085/\nstart = {BOM | ARAB | SEPS | NONCH | \"x\"};\n")
		add("surrogates", "grammar sur;\nSUR = /a\\xD800b|[\\xDBFF-\\xDC01]+/\nLAST = /\\xDFFF\\xE000/\nREPL = /\\xFFFD+/\nstart = {SUR | LAST | REPL | \"x\"};\n")
	}
	if forLexing {
		// (the compiled lexer is driven on these: narrower classes keep the input generator fast)
		add("cjk-lex", "grammar cjklex;\nHAN = /[\\x4E00-\\x4E7F]+/\nHI = /[\\x8000-\\x807F\\xE000\\xFFFD]+/\nKANA = /[\\x3040-\\x309F]+/\nFW = /[\\xFF01-\\xFF5E]/\nstart = {HAN | HI | KANA | FW | \"x\"};\n")
	} else {
		add("cjk", "grammar cjk;\nHAN = /[\\x4E00-\\x7FFF]+/\nHI = /[\\x8000-\\x9FFF]+/\nKANA = /[\\x3040-\\x30FF]+/\nFW = /[\\xFF01-\\xFF5E]/\nstart = {HAN | HI | KANA | FW | \"x\"};\n")
	}
	r := c.rng("emit")
	n := c.n(6, 2000)
	if forLexing {
		n = c.n(4, 1200)
	}
	for i := 0; i < n; i++ {
		g := genWellFormedSpec(r, wfOpts{nNT: 1, nTok: 1 + r.intn(4), nStr: 2 + r.intn(8), nExtraRules: 0, nDirectives: 0, depth: 1})
		// keep the grammar trivially LALR: one flat rule over all terminals
		var kids []*rexpr
		seen := map[string]bool{}
		var walk func(e *rexpr)
		walk = func(e *rexpr) {
			if e == nil {
				return
			}
			if (e.Kind == xString || e.Kind == xToken) && !seen[exprString(e)] {
				seen[exprString(e)] = true
				kids = append(kids, e)
			}
			for _, k := range e.Kids {
				walk(k)
			}
		}
		var decls []rdecl
		for _, d := range g.Decls {
			if d.Kind == "token" {
				decls = append(decls, d)
				kids = append(kids, tokE(d.Name))
				seen["T:"+d.Name] = true
			}
			if d.Rule != nil {
				walk(d.Rule.RHS)
			}
		}
		if len(kids) == 0 {
			continue
		}
		g.Name = fmt.Sprintf("gen%d", i)
		g.Decls = append(decls, rdecl{Kind: "rule", Rule: &rrule{LHS: "start", RHS: wrapE(xStar, altE(kids...))}})
		add(g.Name, canonicalText(g))
	}
	return out
}

type emitted struct {
	spec    emitSpec
	idx     int
	pkgName string
	dir     string // package directory
	ok      bool   // CLI succeeded
	cliOut  string
	dfa     *eDFA
	owner   map[int]string
	defs    []string
}

// emitBatch runs the real CLI for each specification into root/p<i>/ and prepares the scratch module.
func emitBatch(c *ctx, root string, specs []emitSpec) []*emitted {
	bin := filepath.Join(verifDir, "bin", "emerge")
	_ = os.WriteFile(filepath.Join(root, "go.mod"), []byte("module scratch\n\ngo 1.24.0\n"), 0o644)
	var out []*emitted
	for i, s := range specs {
		e := &emitted{spec: s, idx: i}
		pdir := filepath.Join(root, fmt.Sprintf("p%d", i))
		_ = os.MkdirAll(pdir, 0o755)
		sf := filepath.Join(pdir, "in.ebnf")
		_ = os.WriteFile(sf, []byte(s.text), 0o644)
		cmd := exec.Command(bin, "-out", pdir, sf)
		var ob bytes.Buffer
		cmd.Stdout, cmd.Stderr = &ob, &ob
		err := cmd.Run()
		e.cliOut = stripANSI(ob.String())
		e.ok = err == nil
		// in-process automaton from the same text
		pv, _ := safely(func() {
			sp, perr := spec.Parse(fileName, strings.NewReader(s.text))
			if perr != nil {
				return
			}
			e.pkgName = sp.Name
			d, tm, derr := sp.DFA()
			if derr != nil || d == nil {
				return
			}
			e.dfa = fromAutoDFA(d)
			e.owner = map[int]string{}
			for t, ss := range tm {
				for _, st := range ss {
					e.owner[int(st)] = string(t)
				}
			}
			for _, df := range sp.Definitions {
				e.defs = append(e.defs, string(df.Terminal))
			}
		})
		_ = pv
		e.dir = filepath.Join(pdir, e.pkgName)
		out = append(out, e)
	}
	return out
}

const dumpFileTmpl = `package %s

import "strings"

// generated by the verification harness (not part of the emitted package)

func VerifAdvance(s int, r rune) int { return advanceDFA(s, r) }

func VerifEval(s int) string {
	in, _ := newInput("x", strings.NewReader(""), 16)
	l := &Lexer{in: in}
	return string(l.evalDFA(s).Terminal)
}
`

const driverHead = `package main

import (
	"bufio"
	"encoding/hex"
	"encoding/json"
	"errors"
	"fmt"
	"io"
	"os"
	"strings"
%s
)

type tok struct {
	T string ` + "`json:\"t\"`" + `
	L string ` + "`json:\"l\"`" + `
	O int    ` + "`json:\"o\"`" + `
	Ln int   ` + "`json:\"ln\"`" + `
	C int    ` + "`json:\"c\"`" + `
}

type result struct {
	Toks []tok  ` + "`json:\"toks\"`" + `
	End  string ` + "`json:\"end\"`" + `
	Adv  []int  ` + "`json:\"adv,omitempty\"`" + `
	Eval []string ` + "`json:\"eval,omitempty\"`" + `
}

type request struct {
	Pkg   int     ` + "`json:\"pkg\"`" + `
	Mode  string  ` + "`json:\"mode\"`" + `
	Input string  ` + "`json:\"input\"`" + `
	States []int  ` + "`json:\"states\"`" + `
	Runes []int32 ` + "`json:\"runes\"`" + `
	Chunk int     ` + "`json:\"chunk\"`" + `
}

// chunkReader hands out the data in small pieces (exercises partial reads of the emitted reader)
type chunkReader struct {
	data []byte
	n    int
}

func (c *chunkReader) Read(p []byte) (int, error) {
	if len(c.data) == 0 {
		return 0, io.EOF
	}
	if c.n < 0 {
		// a reader that reports the end of the input together with the last bytes (allowed by io.Reader; gzip does it)
		k := -c.n
		if k > len(p) {
			k = len(p)
		}
		if k >= len(c.data) {
			k = len(c.data)
			copy(p, c.data[:k])
			c.data = nil
			return k, io.EOF
		}
		copy(p, c.data[:k])
		c.data = c.data[k:]
		return k, nil
	}
	k := c.n
	if k > len(p) {
		k = len(p)
	}
	if k > len(c.data) {
		k = len(c.data)
	}
	copy(p, c.data[:k])
	c.data = c.data[k:]
	return k, nil
}

func main() {
	sc := bufio.NewScanner(os.Stdin)
	sc.Buffer(make([]byte, 1<<20), 1<<28)
	w := bufio.NewWriter(os.Stdout)
	defer w.Flush()
	for sc.Scan() {
		var rq request
		if err := json.Unmarshal(sc.Bytes(), &rq); err != nil {
			fmt.Fprintln(w, "{\"end\":\"bad request\"}")
			continue
		}
		var rs result
		func() {
			defer func() {
				if r := recover(); r != nil {
					rs.End = fmt.Sprintf("PANIC %%v", r)
				}
			}()
			switch rq.Pkg {
%s
			}
		}()
		b, _ := json.Marshal(&rs)
		w.Write(b)
		w.WriteString("\n")
		w.Flush()
	}
	_ = errors.New
	_ = strings.NewReader
	_ = hex.EncodeToString
}
`

const driverCase = `			case %d:
				if rq.Mode == "dump" {
					for _, s := range rq.States {
						for _, r := range rq.Runes {
							rs.Adv = append(rs.Adv, p%d.VerifAdvance(s, rune(r)))
						}
						rs.Eval = append(rs.Eval, p%d.VerifEval(s))
					}
					return
				}
				data, _ := hex.DecodeString(rq.Input)
				var src io.Reader = strings.NewReader(string(data))
				if rq.Chunk != 0 {
					src = &chunkReader{data: data, n: rq.Chunk}
				}
				l, err := p%d.New("in", src)
				if err != nil {
					rs.End = "New: " + err.Error()
					return
				}
				for n := 0; ; n++ {
					t, err := l.NextToken()
					if err != nil {
						if errors.Is(err, io.EOF) {
							rs.End = "EOF"
						} else {
							rs.End = "ERR " + err.Error()
						}
						return
					}
					rs.Toks = append(rs.Toks, tok{string(t.Terminal), t.Lexeme, t.Pos.Offset, t.Pos.Line, t.Pos.Column})
					if n > len(data)+8 {
						rs.End = "RUNAWAY more tokens than input bytes"
						return
					}
				}
`

// buildDriver writes dump files and the driver for the packages that were emitted, and builds it.
func buildDriver(root string, pkgs []*emitted) (bin string, buildOut string, err error) {
	var imports, cases strings.Builder
	for _, e := range pkgs {
		if !e.ok || e.pkgName == "" {
			continue
		}
		_ = os.WriteFile(filepath.Join(e.dir, "zz_verif_dump.go"), []byte(fmt.Sprintf(dumpFileTmpl, e.pkgName)), 0o644)
		fmt.Fprintf(&imports, "\tp%d \"scratch/p%d/%s\"\n", e.idx, e.idx, e.pkgName)
		fmt.Fprintf(&cases, driverCase, e.idx, e.idx, e.idx, e.idx)
	}
	_ = os.MkdirAll(filepath.Join(root, "cmd"), 0o755)
	_ = os.WriteFile(filepath.Join(root, "cmd", "main.go"), []byte(fmt.Sprintf(driverHead, imports.String(), cases.String())), 0o644)
	bin = filepath.Join(root, "drv")
	cmd := exec.Command("go", "build", "-o", bin, "./cmd")
	cmd.Dir = root
	cmd.Env = append(os.Environ(), "GOFLAGS=-mod=mod", "GOPROXY=off", "GO111MODULE=on", "GOWORK=off")
	var ob bytes.Buffer
	cmd.Stdout, cmd.Stderr = &ob, &ob
	err = cmd.Run()
	return bin, ob.String(), err
}

// runDriver sends the requests to a fresh driver process and returns one raw JSON line per request.
func runDriver(bin string, reqs []map[string]any) ([]map[string]any, error) {
	var inb bytes.Buffer
	enc := json.NewEncoder(&inb)
	for _, r := range reqs {
		if err := enc.Encode(r); err != nil {
			return nil, err
		}
	}
	if dbg := os.Getenv("VERIF_DRIVER_DEBUG"); dbg != "" {
		_ = os.WriteFile(dbg, inb.Bytes(), 0o644)
		_ = exec.Command("cp", bin, dbg+".drv").Run()
	}
	cmd := exec.Command(bin)
	cmd.Stdin = &inb
	var ob, eb bytes.Buffer
	cmd.Stdout, cmd.Stderr = &ob, &eb
	err := cmd.Run()
	var out []map[string]any
	for _, line := range strings.Split(strings.TrimSpace(ob.String()), "\n") {
		if line == "" {
			continue
		}
		var m map[string]any
		if jerr := json.Unmarshal([]byte(line), &m); jerr != nil {
			return out, fmt.Errorf("bad driver output %q", line)
		}
		out = append(out, m)
	}
	if err != nil {
		return out, fmt.Errorf("driver died: %v: %s", err, firstLines(eb.String(), 10))
	}
	return out, nil
}

// c08Regenerate: a second run into a directory that already holds the package of an earlier, LARGER grammar of the same
// name. The tool may refuse; if it reports success, what is on disk must be exactly what a run into a fresh directory
// emits (no remains of the earlier files).
func c08Regenerate(c *ctx, root string) {
	bin := filepath.Join(verifDir, "bin", "emerge")
	big := "grammar regen;\nID = /[a-z][a-z0-9_]*/\nNUM = /[0-9]+(\\.[0-9]+)?/\nSTR = /\"[^\"]*\"/\nstart = {ID | NUM | STR | \"while\" | \"until\" | \"whilst\" | \"unless\" | \"<=\" | \"<\" | \"<<\"};\n"
	small := "grammar regen;\nstart = {\"a\" | \"b\"};\n"
	run := func(dir, text string) (bool, string) {
		_ = os.MkdirAll(dir, 0o755)
		sf := filepath.Join(dir, "in.ebnf")
		_ = os.WriteFile(sf, []byte(text), 0o644)
		cmd := exec.Command(bin, "-out", dir, sf)
		var ob bytes.Buffer
		cmd.Stdout, cmd.Stderr = &ob, &ob
		err := cmd.Run()
		return err == nil, stripANSI(ob.String())
	}
	for i, order := range [][2]string{{big, small}, {small, big}, {big, big}} {
		c.eval()
		dir := filepath.Join(root, fmt.Sprintf("regen%d", i))
		fresh := filepath.Join(root, fmt.Sprintf("regen%d-fresh", i))
		ok1, out1 := run(dir, order[0])
		if !ok1 {
			c.inconclusive("first generation failed")
			c.note("regen first run: %s", firstLines(out1, 4))
			continue
		}
		ok2, _ := run(dir, order[1])
		c.count("second_runs_into_an_existing_package_directory", 1)
		if !ok2 {
			c.count("second_runs_refused", 1)
			continue
		}
		if okf, outf := run(fresh, order[1]); !okf {
			c.inconclusive("fresh generation failed")
			c.note("regen fresh run: %s", firstLines(outf, 4))
			continue
		}
		c.nontrivial(fmt.Sprintf("regen%d", i))
		for _, f := range emittedFiles {
			a, _ := os.ReadFile(filepath.Join(dir, "regen", f))
			b, _ := os.ReadFile(filepath.Join(fresh, "regen", f))
			if !bytes.Equal(a, b) {
				c.violate(violation{Case: fmt.Sprintf("regenerate%d/%s", i, f), Input: map[string]string{"first_specification": order[0], "second_specification": order[1]},
					Observed: fmt.Sprintf("the second run reported success; %s has %d bytes and differs from a fresh generation (%d bytes): %s", f, len(a), len(b), firstDiffLine(string(a), string(b))),
					Expected: "refused, or exactly the files a run into an empty directory emits"})
				break
			}
		}
	}
}

func runC08(c *ctx) {
	root, err := os.MkdirTemp("", "verif-c08-")
	if err != nil {
		c.inconclusive("mktemp")
		return
	}
	defer os.RemoveAll(root)
	c08Regenerate(c, root)
	specs := emitSpecs(c, false)
	pkgs := emitBatch(c, root, specs)
	// (1) static checks per package
	for _, e := range pkgs {
		c.eval()
		if e.dfa == nil {
			c.inconclusive("specification not accepted in-process (generator / C07's business)")
			c.note("spec %s not accepted in-process", e.spec.name)
			continue
		}
		if !e.ok {
			c.violate(violation{Case: e.spec.name, Input: e.spec.text, Observed: "the CLI failed: " + firstLines(e.cliOut, 12), Expected: "an accepted specification is emitted"})
			continue
		}
		nTerms := map[string]bool{}
		for _, t := range e.owner {
			nTerms[t] = true
		}
		if e.dfa.nst >= 4 && len(nTerms) >= 2 {
			c.nontrivial(e.spec.text)
		}
		fset := token.NewFileSet()
		for _, f := range emittedFiles {
			src, rerr := os.ReadFile(filepath.Join(e.dir, f))
			if rerr != nil {
				c.violate(violation{Case: e.spec.name, Input: e.spec.text, Observed: "missing " + f, Expected: "six files"})
				continue
			}
			af, perr := parser.ParseFile(fset, f, src, parser.ImportsOnly|parser.AllErrors)
			if perr == nil {
				_, perr = parser.ParseFile(fset, f, src, parser.AllErrors)
			}
			if perr != nil {
				c.violate(violation{Case: e.spec.name + "/" + f, Input: e.spec.text, Observed: "does not parse as Go: " + firstLines(perr.Error(), 4), Expected: "valid Go"})
				continue
			}
			if af.Name.Name != e.pkgName {
				c.violate(violation{Case: e.spec.name + "/" + f, Input: e.spec.text, Observed: "package clause " + af.Name.Name, Expected: "package " + e.pkgName})
			}
			for _, im := range af.Imports {
				p, _ := strconv.Unquote(im.Path.Value)
				if first := strings.Split(p, "/")[0]; strings.Contains(first, ".") {
					c.violate(violation{Case: e.spec.name + "/" + f, Input: e.spec.text, Observed: "imports " + p, Expected: "only the standard library"})
				}
			}
			c.count("files_parsed", 1)
		}
	}
	// build (whole batch; on failure attribute per package)
	bin, bout, berr := buildDriver(root, pkgs)
	if berr != nil {
		c.count("batch_build_failed", 1)
		for _, e := range pkgs {
			if !e.ok || e.dfa == nil {
				continue
			}
			cmd := exec.Command("go", "build", "./"+filepath.Join(fmt.Sprintf("p%d", e.idx), e.pkgName))
			cmd.Dir = root
			cmd.Env = append(os.Environ(), "GOFLAGS=-mod=mod", "GOPROXY=off", "GOWORK=off")
			var ob bytes.Buffer
			cmd.Stdout, cmd.Stderr = &ob, &ob
			if err := cmd.Run(); err != nil {
				c.violate(violation{Case: e.spec.name + "/build", Input: e.spec.text, Observed: "the emitted package does not build: " + firstLines(ob.String(), 8), Expected: "type-checks using only the standard library"})
				e.ok = false
			}
		}
		bin, bout, berr = buildDriver(root, pkgs)
		if berr != nil {
			c.inconclusive("driver build failed")
			c.note("driver build: %s", firstLines(bout, 10))
			return
		}
	}
	// (2) dump and compare
	for _, e := range pkgs {
		if !e.ok || e.dfa == nil {
			continue
		}
		c08Compare(c, bin, e)
	}
}

func probeRunes(d *eDFA) []rune {
	seen := map[rune]bool{}
	var out []rune
	add := func(r rune) {
		if r >= 0 && r <= 0x10FFFF && !seen[r] {
			seen[r] = true
			out = append(out, r)
		}
	}
	for _, a := range d.alpha {
		add(a - 1)
		add(a)
		add(a + 1)
	}
	for _, r := range []rune{0, '\'', '"', '\\', '\n', '\t', '\r', ' ', 0x7F, 0x80, 0xE9, 0xEEEE, 0xFFFF, 0x10000, 0x10FFFF} {
		add(r)
	}
	sort.Slice(out, func(i, j int) bool { return out[i] < out[j] })
	return out
}

func c08Compare(c *ctx, bin string, e *emitted) {
	runes := probeRunes(e.dfa)
	maxState := 0
	for s := range e.dfa.trans {
		if s > maxState {
			maxState = s
		}
		for _, t := range e.dfa.trans[s] {
			if t > maxState {
				maxState = t
			}
		}
	}
	for s := range e.dfa.final {
		if s > maxState {
			maxState = s
		}
	}
	var states []int
	for s := -1; s <= maxState+2; s++ {
		states = append(states, s)
	}
	r32 := make([]int32, len(runes))
	for i, r := range runes {
		r32[i] = int32(r)
	}
	res, err := runDriver(bin, []map[string]any{{"pkg": e.idx, "mode": "dump", "states": states, "runes": r32}})
	if err != nil || len(res) != 1 {
		c.inconclusive("driver failed")
		c.note("driver: %v", err)
		return
	}
	if end, _ := res[0]["end"].(string); strings.HasPrefix(end, "PANIC") {
		c.violate(violation{Case: e.spec.name + "/dump", Input: e.spec.text, Observed: end, Expected: "no panic"})
		return
	}
	advAny, _ := res[0]["adv"].([]any)
	evalAny, _ := res[0]["eval"].([]any)
	if len(advAny) != len(states)*len(runes) || len(evalAny) != len(states) {
		c.inconclusive("driver returned a short dump")
		return
	}
	adv := func(si, ri int) int { return int(advAny[si*len(runes)+ri].(float64)) }
	// start-anchored bijection emitted state -> in-process state
	if e.dfa.start != 0 {
		c.violate(violation{Case: e.spec.name, Input: e.spec.text, Observed: fmt.Sprintf("in-process automaton starts in state %d", e.dfa.start), Expected: "state 0 (the emitted lexer starts in 0)"})
		return
	}
	idxOf := map[int]int{}
	for i, s := range states {
		idxOf[s] = i
	}
	m := map[int]int{0: 0} // emitted -> reference
	rev := map[int]int{0: 0}
	queue := []int{0}
	pairs := int64(0)
	for len(queue) > 0 {
		es := queue[0]
		queue = queue[1:]
		si, ok := idxOf[es]
		if !ok {
			c.violate(violation{Case: e.spec.name, Input: e.spec.text, Observed: fmt.Sprintf("emitted transition leads to state %d, beyond the automaton's states", es), Expected: "a state of the automaton"})
			return
		}
		for ri, r := range runes {
			pairs++
			et := adv(si, ri)
			rt := e.dfa.step(m[es], r)
			if (et < 0) != (rt < 0) {
				c.violate(violation{Case: e.spec.name, Input: e.spec.text, Observed: fmt.Sprintf("emitted advanceDFA(%d, %U) = %d", es, r, et), Expected: fmt.Sprintf("%d as in the token automaton (state %d)", rt, m[es])})
				return
			}
			if et < 0 {
				continue
			}
			if old, ok := m[et]; ok {
				if old != rt {
					c.violate(violation{Case: e.spec.name, Input: e.spec.text, Observed: fmt.Sprintf("emitted advanceDFA(%d, %U) = %d", es, r, et), Expected: fmt.Sprintf("a state corresponding to automaton state %d, but %d already corresponds to %d", rt, et, old)})
					return
				}
				continue
			}
			if old, ok := rev[rt]; ok && old != et {
				c.violate(violation{Case: e.spec.name, Input: e.spec.text, Observed: fmt.Sprintf("automaton state %d is encoded by two emitted states (%d, %d)", rt, old, et), Expected: "one"})
				return
			}
			m[et], rev[rt] = rt, et
			queue = append(queue, et)
		}
	}
	// states outside the automaton: nothing
	for si, s := range states {
		if _, ok := m[s]; ok {
			continue
		}
		for ri, r := range runes {
			pairs++
			if et := adv(si, ri); et != -1 {
				c.violate(violation{Case: e.spec.name, Input: e.spec.text, Observed: fmt.Sprintf("advanceDFA(%d, %U) = %d for a state the automaton does not have", s, r, et), Expected: "-1"})
				return
			}
		}
	}
	// accepting table
	for si, s := range states {
		got, _ := evalAny[si].(string)
		want := "ERR"
		if rs, ok := m[s]; ok {
			if t, ok := e.owner[rs]; ok {
				want = t
			}
		}
		if got != want {
			c.violate(violation{Case: e.spec.name, Input: e.spec.text, Observed: fmt.Sprintf("emitted evalDFA(%d) yields terminal %q", s, got), Expected: fmt.Sprintf("%q", want)})
			return
		}
	}
	if len(m) != e.dfa.nst {
		c.violate(violation{Case: e.spec.name, Input: e.spec.text, Observed: fmt.Sprintf("%d states reachable in the emitted table", len(m)), Expected: fmt.Sprintf("%d states of the automaton", e.dfa.nst)})
		return
	}
	c.evalN(pairs)
	c.count("state_rune_pairs_compared", pairs)
	c.count("packages_fully_compared", 1)
	c.sample(map[string]any{"spec": e.spec.name, "states": e.dfa.nst, "probe_runes": len(runes), "terminals": len(e.defs)})
}

func hexOf(s string) string { return hex.EncodeToString([]byte(s)) }

package main

// C09 - a pattern is accepted only as a whole sentence of the documented pattern grammar; grammatical but
// meaningless patterns are rejected with an error naming the problem; unambiguous documented forms are accepted.

import (
	"fmt"
	"strings"

	rast "github.com/gardenbed/emerge/internal/regex/parser/ast"
	"github.com/gardenbed/emerge/internal/regex/parser/nfa"
)

func init() {
	register(&property{
		id:    "C09",
		level: "exploration",
		rule: "(1) ALL strings up to a length bound over a 24-symbol alphabet containing every metacharacter (\\|.?*+()[]{}$) plus a 0 A x - , : ^ p s 1: for each, both entry points (nfa.Parse, regex ast.Parse) are run; " +
			"accepted => the whole text must be a sentence of the documented grammar (decided by a complete CFG recogniser, all parses considered). (2) canonical prints of generated trees (C02's population): must be accepted. " +
			"(3) the same prints with one descending character range or one {n,m} with n>m injected: must be rejected and the message must name the offending range; repetition counts with leading zeros (decimal by the grammar num = digit+), ascending (must be accepted) and descending (must be rejected); character ranges between 21 code points of every block (ASCII, Latin-1, BMP, the surrogate block, astral) with each end point in each escape form (literal, \\xHH, \\xHHHH, 6 and 8 digits), ascending and descending. (4) both entry points agree. " +
			"(5) every single-character insertion/deletion/replacement of ~120 valid patterns: verdict (1) and (4). non-trivial = accepted, or rejected although a proper prefix is a sentence; distinct by text.",
		assumptions: []string{
			"the documented grammar is transcribed in ref_patgram.go; 'char' is read permissively as 'any character' so that the soundness direction cannot raise a false alarm",
			"completeness (sentence => accepted) is only demanded for canonical prints in unambiguous forms, as the property states",
		},
		floorQuick: 100000, floorThorough: 1000000,
		run: runC09,
	})
}

type patVerdict struct {
	nfaOK, astOK   bool
	nfaErr, astErr string
	panicked       bool
}

func parseBoth(p string) patVerdict {
	var v patVerdict
	pv, _ := safely(func() {
		n, err := nfa.Parse(p)
		v.nfaOK = err == nil && n != nil
		if err != nil {
			v.nfaErr = err.Error()
		}
	})
	if pv != nil {
		v.panicked = true
	}
	pv, _ = safely(func() {
		a, err := rast.Parse(p)
		v.astOK = err == nil && a != nil
		if err != nil {
			v.astErr = err.Error()
		}
	})
	if pv != nil {
		v.panicked = true
	}
	return v
}

func c09Check(c *ctx, name, p string, mustAccept bool) {
	c.eval()
	v := parseBoth(p)
	if v.panicked {
		c.inconclusive("panic (C14's business)")
		return
	}
	if v.nfaOK != v.astOK {
		c.violate(violation{Case: name, Input: p, Observed: fmt.Sprintf("nfa.Parse accepted=%v (%s), ast.Parse accepted=%v (%s)", v.nfaOK, v.nfaErr, v.astOK, v.astErr), Expected: "both entry points agree on accept/reject"})
		return
	}
	sent := isPatternSentence(p)
	if v.nfaOK {
		c.count("accepted", 1)
		c.nontrivial(p)
		if !sent {
			c.violate(violation{Case: name, Input: p, Observed: "accepted", Expected: "rejected: the text is not a sentence of the documented pattern grammar (a suffix or unknown construct was ignored)"})
		}
	} else {
		c.count("rejected", 1)
		if sent {
			c.count("rejected_sentences_in_ambiguous_forms_not_judged", 1)
		}
		// non-trivial rejection: some proper prefix is a sentence
		rs := []rune(p)
		for i := len(rs) - 1; i >= 1; i-- {
			if isPatternSentence(string(rs[:i])) {
				c.nontrivial(p)
				c.count("rejected_with_sentence_prefix", 1)
				break
			}
		}
		if mustAccept {
			c.violate(violation{Case: name, Input: p, Observed: "rejected: " + v.nfaErr, Expected: "accepted: written with documented constructs in their unambiguous forms"})
		}
	}
}

// c09MustAccept: for long texts that are sentences by construction (the complete recogniser is cubic in their length):
// both entry points must accept them.
func c09MustAccept(c *ctx, name, p string) {
	c.eval()
	v := parseBoth(p)
	if v.panicked {
		c.inconclusive("panic (C14's business)")
		return
	}
	c.nontrivial(p)
	if !v.nfaOK || !v.astOK {
		c.violate(violation{Case: name, Input: p, Observed: fmt.Sprintf("nfa.Parse accepted=%v (%s), ast.Parse accepted=%v (%s)", v.nfaOK, v.nfaErr, v.astOK, v.astErr), Expected: "accepted: a sentence of the documented grammar by construction (alternation and grouping only)"})
	}
}

func runC09(c *ctx) {
	// (1) exhaustive short strings
	alpha := []rune(`\|.?*+()[]{}$a0Ax-,:^ps1`)
	maxLen := c.n(4, 5)
	total := 0
	for n := 0; n <= maxLen; n++ {
		idx := make([]int, n)
		buf := make([]rune, n)
		for {
			for i, k := range idx {
				buf[i] = alpha[k]
			}
			total++
			if c.mine() {
				s := string(buf)
				if s != "" || true {
					c09Check(c, "short", s, false)
				}
			}
			// increment
			i := n - 1
			for ; i >= 0; i-- {
				idx[i]++
				if idx[i] < len(alpha) {
					break
				}
				idx[i] = 0
			}
			if i < 0 {
				break
			}
		}
	}
	c.exhaustive(fmt.Sprintf("all_strings_len_le_%d_over_24_symbols", maxLen), true)
	c.count("short_strings_enumerated_total", int64(total)/int64(c.of))

	// (2) canonical prints
	pop := patternPopulation(c, false)
	var valid []string
	for _, pc := range pop {
		if strings.HasPrefix(pc.name, "predef") {
			continue
		}
		if len(valid) < 4000 {
			valid = append(valid, pc.text)
		}
		if !c.mine() {
			continue
		}
		c09Check(c, "print/"+pc.name, pc.text, true)
	}
	// anchors in documented positions
	for _, s := range []string{"^a", "a$", "^a$", "^(a|b)*$", "^[a-z]+$"} {
		if c.mine() {
			c09Check(c, "anchor", s, true)
		}
	}

	// (3) meaningless but grammatical
	type bad struct{ text, mention string }
	var bads []bad
	for _, r := range [][2]string{{"b", "a"}, {"9", "0"}, {"z", "A"}, {"~", " "}} {
		bads = append(bads, bad{"[" + r[0] + "-" + r[1] + "]", r[0] + "-" + r[1]})
		bads = append(bads, bad{"x[^" + r[0] + "-" + r[1] + "q]+", r[0] + "-" + r[1]})
		bads = append(bads, bad{"(a|[0" + r[0] + "-" + r[1] + "])*", r[0] + "-" + r[1]})
	}
	for _, r := range [][2]int{{3, 2}, {1, 0}, {10, 9}, {2, 1}} {
		m := fmt.Sprintf("{%d,%d}", r[0], r[1])
		bads = append(bads, bad{"a" + m, m}, bad{"(ab)" + m + "?", m}, bad{"x[a-c]" + m + "y", m}, bad{"." + m, m})
	}
	// counts around the largest machine integer: a minimum beyond it followed by a small maximum is a descending range
	// (or, at best, an unusable count): never acceptable
	for _, n := range []string{"9223372036854775808", "9223372036854775809", "9223372036854775810", "92233720368547758080", "18446744073709551616", "18446744073709551617", "009223372036854775808"} {
		for _, atom := range []string{"a", "(ab)", "[0-9]"} {
			bads = append(bads, bad{atom + "{" + n + ",5}", ""}, bad{atom + "{" + n + ",0}?", ""}, bad{"x" + atom + "{" + n + ",7}y", ""})
		}
	}
	// long flat alternations and deep nesting are ordinary sentences
	for _, n := range []int{100, 249, 250, 251, 252, 300, 500} {
		var alts []string
		for k := 0; k < n; k++ {
			alts = append(alts, fmt.Sprintf("k%d", k))
		}
		if c.mine() {
			c09MustAccept(c, fmt.Sprintf("flat-alternation-%d", n), strings.Join(alts, "|"))
		}
		if n <= 300 && c.mine() {
			c09MustAccept(c, fmt.Sprintf("nesting-%d", n), strings.Repeat("(", n)+"a"+strings.Repeat(")", n))
			c09MustAccept(c, fmt.Sprintf("nested-alternation-%d", n), strings.Repeat("(a|", n)+"b"+strings.Repeat(")", n))
		}
	}
	// class names: only the documented ones are sentences
	for _, n := range []string{"ASCII", "Ascii", "ascii", "UTF-8", "UTF8", "Any", "All", "Alpha", "Digit", "Word", "Space", "Blank", "Upper", "Lower", "Alnum", "XDigit", "Cntrl", "Print", "Graph", "Punct",
		"Lette", "Letters", "Lx", "LL", "lu", "LU", "latin", "LATIN", "Hangul", "Arabic", "Hebrew", "Cc", "Cf", "C", "Other", "", "L ", " L", "L}", "Lu}{"} {
		for _, f := range []string{`\p{%s}`, `\P{%s}`, `[\p{%s}]`, `[^\P{%s}]`, `a\p{%s}+b`} {
			if c.mine() {
				c09Check(c, "class-name", fmt.Sprintf(f, n), false)
			}
		}
	}
	// repetition counts are num = digit+: leading zeros are decimal digits like any other
	zeros := func(n, z int) string { return strings.Repeat("0", z) + fmt.Sprint(n) }
	for _, n := range []int{0, 1, 7, 8, 9, 10, 12, 64} {
		for z := 1; z <= 3; z++ {
			for _, atom := range []string{"a", "(ab)", "[a-c]"} {
				if n <= 12 && c.mine() {
					c09Check(c, "count-leading-zeros", atom+"{"+zeros(n, z)+"}", true)
					c09Check(c, "count-leading-zeros", atom+"{"+zeros(n, z)+",}", true)
				}
				for _, m := range []int{0, 1, 7, 8, 9, 10, 11, 12, 63, 64, 65} {
					for zm := 0; zm <= 2; zm += 2 {
						text := atom + "{" + zeros(n, z) + "," + zeros(m, zm) + "}"
						switch {
						case n > m:
							bads = append(bads, bad{text, ""})
						case m <= 12 && c.mine():
							c09Check(c, "count-leading-zeros", text, true)
						}
						if m > n {
							bads = append(bads, bad{atom + "{" + zeros(m, zm) + "," + zeros(n, z) + "}", ""})
						}
					}
				}
			}
		}
	}
	// character ranges whose end points are written in every escape form, across the blocks of the code space
	spell := func(cp int) []string {
		var out []string
		if cp > 0x20 && cp < 0x7F && !strings.ContainsRune("\\|.?*+()[]{}$^-:/", rune(cp)) {
			out = append(out, string(rune(cp)))
		}
		if cp <= 0xFF {
			out = append(out, fmt.Sprintf("\\x%02X", cp))
		}
		if cp <= 0xFFFF {
			out = append(out, fmt.Sprintf("\\x%04X", cp))
		}
		if cp > 0xFF {
			out = append(out, fmt.Sprintf("\\x%06X", cp), fmt.Sprintf("\\x%08X", cp))
		}
		return out
	}
	cps := []int{0x30, 0x39, 0x41, 0x7A, 0x7E, 0x7F, 0x80, 0xFF, 0x100, 0x7FF, 0x800, 0xD7FF, 0xD800, 0xD900, 0xDBFF, 0xDC00, 0xDFFF, 0xE000, 0xFFFF, 0x10000, 0x10FFFE, 0x10FFFF}
	for i, lo := range cps {
		for _, hi := range cps[i+1:] {
			if hi-lo > 0x1000 {
				continue // emerge expands a range symbol by symbol: wide ranges cost minutes
			}
			for _, ls := range spell(lo) {
				for _, hs := range spell(hi) {
					bads = append(bads, bad{"[" + hs + "-" + ls + "]", ""}, bad{"ab([0-9]|[^" + hs + "-" + ls + "])+", ""})
					if c.mine() {
						c09Check(c, "range-forms", "["+ls+"-"+hs+"]", true)
					}
				}
			}
		}
	}
	c.count("meaningless_patterns_that_must_be_rejected", int64(len(bads))/int64(c.of))
	for _, b := range bads {
		if !c.mine() {
			continue
		}
		c.eval()
		v := parseBoth(b.text)
		if v.panicked {
			c.inconclusive("panic (C14's business)")
			continue
		}
		c.nontrivial(b.text)
		for _, e := range []struct {
			who string
			ok  bool
			msg string
		}{{"nfa.Parse", v.nfaOK, v.nfaErr}, {"regex ast.Parse", v.astOK, v.astErr}} {
			if e.ok {
				c.violate(violation{Case: "meaningless", Input: b.text, Observed: e.who + " accepted", Expected: "rejected: " + b.mention + " is meaningless"})
			} else if b.mention != "" && !strings.Contains(e.msg, b.mention) {
				c.violate(violation{Case: "meaningless", Input: b.text, Observed: e.who + " error: " + e.msg, Expected: "an error naming the offending range " + b.mention})
			}
		}
	}

	// (5) single-character edits of valid patterns
	r := c.rng("edits")
	nBase := c.n(120, 1200)
	edits := []rune(`\|.?*+()[]{}$a0-,:^ xp`)
	for b := 0; b < nBase && len(valid) > 0; b++ {
		base := []rune(valid[r.intn(len(valid))])
		if len(base) > 24 {
			continue
		}
		for pos := 0; pos <= len(base); pos++ {
			// deletion
			if pos < len(base) && c.mine() {
				c09Check(c, "edit-del", string(base[:pos])+string(base[pos+1:]), false)
			}
			for _, e := range edits {
				if c.mine() {
					c09Check(c, "edit-ins", string(base[:pos])+string(e)+string(base[pos:]), false)
				}
				if pos < len(base) && c.mine() {
					c09Check(c, "edit-rep", string(base[:pos])+string(e)+string(base[pos+1:]), false)
				}
			}
		}
	}
	if c.shard == 0 {
		c.sample(map[string]any{"accepted_example": "a{2,3}?", "sentence": isPatternSentence("a{2,3}?")})
		c.sample(map[string]any{"rejected_example": "a)", "sentence": isPatternSentence("a)")})
	}
}

package main

// C12 - the recorded precedence levels are exactly the directives, in order, with their handles.

import (
	"fmt"
	"github.com/gardenbed/emerge/internal/ebnf/parser/spec"
	"sort"
	"strings"
)

func init() {
	register(&property{
		id:    "C12",
		level: "exploration",
		rule: "seeded well-formed specifications with 0-8 directives: every mix of @left/@right/@none, string and named terminals, rule handles plain / with alternation / trailing | / each extended operator / nested, the handled rule also declared or not, directives before, between and after the other declarations. " +
			"Observed Spec.Precedences must have one level per directive in source order with the written associativity; terminal handles = exactly the terms listed; production handles: each is a production of Spec.Grammar with a written head, their number per head = number of distinct alternatives after distributing alternation, and the union of their bodies' bounded languages (in emerge's grammar) = the language of the written right-hand sides. " +
			"non-trivial = >= 2 levels and >= 1 rule handle, or >= 4 levels; distinct by text.",
		assumptions: []string{"order of handles inside a level is not observable (a set) and is not checked", "specifications whose handles collide across levels are ill-formed (C07) and are skipped here"},
		floorQuick:  2000, floorThorough: 30000,
		run: runC12,
	})
}

// distribute returns the distinct alternatives of an expression after distributing alternation over concatenation,
// with bracketed sub-expressions treated as single symbols identified by (operator, set of inner alternatives).
func distribute(e *rexpr) []string {
	if e == nil {
		return []string{""}
	}
	var out []string
	switch e.Kind {
	case xConcat:
		out = []string{""}
		for _, k := range e.Kids {
			var next []string
			for _, a := range out {
				for _, b := range distribute(k) {
					next = append(next, strings.TrimSpace(a+" "+b))
				}
			}
			out = next
		}
	case xAlt:
		for _, k := range e.Kids {
			out = append(out, distribute(k)...)
		}
	case xEmpty:
		out = []string{""}
	case xGroup, xOpt, xStar, xPlus:
		inner := distribute(e.Kids[0])
		sort.Strings(inner)
		inner = uniqStrings(inner)
		out = []string{fmt.Sprintf("%d<%s>", e.Kind, strings.Join(inner, "|"))}
	case xNonTerm:
		out = []string{"n:" + e.Name}
	default:
		out = []string{"t:" + e.Name}
	}
	sort.Strings(out)
	return uniqStrings(out)
}

func uniqStrings(xs []string) []string {
	var out []string
	for i, x := range xs {
		if i == 0 || x != xs[i-1] {
			out = append(out, x)
		}
	}
	return out
}

func c12Check(c *ctx, name, text string) {
	c.eval()
	rd := refRead(text)
	if rd.Scan.Masked {
		c.masked()
		return
	}
	if rd.Tree == nil {
		c.inconclusive("generator produced an invalid text (harness)")
		c.note("invalid generated text: %q", text)
		return
	}
	var dirs []rdecl
	for _, d := range rd.Tree.Decls {
		if d.Kind == "directive" {
			dirs = append(dirs, d)
		}
	}
	// skip ill-formed ones: the same handle in two levels
	seenH := map[string]int{}
	for li, d := range dirs {
		local := map[string]bool{}
		for _, h := range d.Handles {
			var keys []string
			if h.IsRule {
				for _, a := range distribute(h.Rule.RHS) {
					keys = append(keys, "p:"+h.Rule.LHS+"→"+a)
				}
			} else {
				keys = []string{"t:" + h.Term}
			}
			for _, k := range keys {
				if prev, ok := seenH[k]; ok && prev != li {
					c.count("skipped_handle_in_two_levels", 1)
					return
				}
				local[k] = true
			}
		}
		for k := range local {
			seenH[k] = li
		}
	}
	o := observeSpec(text)
	if o.Panic != "" {
		c.inconclusive("panic (C14's business)")
		return
	}
	if o.Err != "" {
		c.inconclusive("specification rejected (C07's business)")
		c.note("rejected: %q: %s", text, firstLines(o.Err, 3))
		return
	}
	nRuleHandles := 0
	for _, d := range dirs {
		for _, h := range d.Handles {
			if h.IsRule {
				nRuleHandles++
			}
		}
	}
	if (len(dirs) >= 2 && nRuleHandles >= 1) || len(dirs) >= 4 {
		c.nontrivial(text)
	}
	c.count("levels_observed", int64(len(o.Prec)))
	bad := func(obs, exp string) {
		c.violate(violation{Sig: c01Sig(rd.Tree), Case: name, Input: text, Observed: obs, Expected: exp})
	}
	if len(o.Prec) != len(dirs) {
		bad(fmt.Sprintf("%d precedence levels recorded: %s", len(o.Prec), renderPrec(o.Prec)), fmt.Sprintf("%d (one per directive, in source order)", len(dirs)))
		return
	}
	const k = 4
	tt := newTermTab()
	refEnv := ebnfLanguages(rd.Tree, k, tt)
	gotEnv := cfgLanguages(o.Prods, k, tt)
	inGrammar := map[string]bool{}
	for _, p := range o.Prods {
		inGrammar[p.String()] = true
	}
	for i, d := range dirs {
		lv := o.Prec[i]
		if lv.Assoc != d.Assoc {
			bad(fmt.Sprintf("level %d has associativity %s", i, lv.Assoc), fmt.Sprintf("%s as written on directive %d", d.Assoc, i))
			return
		}
		wantTerms := map[string]bool{}
		wantHeads := map[string][]*rrule{}
		for _, h := range d.Handles {
			if h.IsRule {
				wantHeads[h.Rule.LHS] = append(wantHeads[h.Rule.LHS], h.Rule)
			} else {
				wantTerms[h.Term] = true
			}
		}
		var wt []string
		for t := range wantTerms {
			wt = append(wt, t)
		}
		sort.Strings(wt)
		if strings.Join(wt, "\x00") != strings.Join(lv.Terms, "\x00") {
			bad(fmt.Sprintf("level %d terminal handles %q", i, lv.Terms), fmt.Sprintf("exactly the terminals listed: %q", wt))
			return
		}
		byHead := map[string][]cprod{}
		for _, p := range lv.PProd {
			c.count("production_handles_observed", 1)
			if !inGrammar[p.String()] {
				bad(fmt.Sprintf("level %d has production handle %s", i, p), "every production handle is one of the grammar's own productions: "+prodsOf(o.Prods))
				return
			}
			if _, ok := wantHeads[p.Head]; !ok {
				bad(fmt.Sprintf("level %d has production handle %s", i, p), "only rule handles with the written heads")
				return
			}
			byHead[p.Head] = append(byHead[p.Head], p)
		}
		for head, rules := range wantHeads {
			// expected number of productions: distinct distributed alternatives over all handles of this head
			var alts []string
			wantLang := lang{}
			for _, r := range rules {
				alts = append(alts, distribute(r.RHS)...)
				wantLang.union(exprLang(r.RHS, refEnv, k, tt))
			}
			sort.Strings(alts)
			alts = uniqStrings(alts)
			if len(byHead[head]) != len(alts) {
				bad(fmt.Sprintf("level %d records %d production handle(s) for %s: %v", i, len(byHead[head]), head, byHead[head]),
					fmt.Sprintf("%d: one per alternative of the written rule handle(s) %v", len(alts), alts))
				return
			}
			gotLang := lang{}
			for _, p := range byHead[head] {
				l := langOf("")
				for _, s := range p.Body {
					if strings.HasPrefix(s, "t:") {
						l = langConcat(l, langOf(tt.id(s[2:])), k)
					} else {
						l = langConcat(l, gotEnv[s], k)
					}
				}
				gotLang.union(l)
			}
			if s, ok := langMinus(gotLang, wantLang); ok {
				bad(fmt.Sprintf("level %d: production handles of %s derive %q", i, head, tt.show(s)), "not derivable from the written rule handle")
				return
			}
			if s, ok := langMinus(wantLang, gotLang); ok {
				bad(fmt.Sprintf("level %d: production handles of %s cannot derive %q", i, head, tt.show(s)), "derivable from the written rule handle")
				return
			}
		}
	}
	if c.res.Evaluations%173 == 1 {
		c.sample(map[string]any{"text": text, "levels": renderPrec(o.Prec)})
	}
}

func renderPrec(ps []precObs) string {
	var xs []string
	for i, p := range ps {
		xs = append(xs, fmt.Sprintf("#%d %s %q %q", i, p.Assoc, p.Terms, p.Prods))
	}
	return strings.Join(xs, " ; ")
}

// c12Orders: a rule handle whose rule has a bracket construct over a set S of alternatives, another construct over the
// same S elsewhere, and the rule itself - in every order of the three declarations and for every pair of constructs.
func c12OrderTexts() (names, texts []string) {
	opens, closes := []string{"(", "[", "{", "{{"}, []string{")", "]", "}", "}}"}
	sets := []string{`PLUS | MINUS`, `"+" "-"`, `"a" | "b" "c" |`}
	for si, set := range sets {
		for a := range opens {
			for b := range opens {
				if a == b {
					continue
				}
				terms := []string{`PLUS MINUS`, `"+" "-"`, `"a" "b" "c"`}[si]
				handle := fmt.Sprintf(`@left %s < expr = expr %s %s %s expr > ;`, terms, opens[a], set, closes[a])
				other := fmt.Sprintf(`mark = "#" %s %s %s "#" ;`, opens[b], set, closes[b])
				rule := fmt.Sprintf(`expr = expr %s %s %s expr | NUM ;`, opens[a], set, closes[a])
				decls := []string{handle, other, rule}
				for _, perm := range [][]int{{0, 1, 2}, {0, 2, 1}, {1, 0, 2}, {1, 2, 0}, {2, 0, 1}, {2, 1, 0}} {
					text := "grammar g ; PLUS = \"+\" ; MINUS = \"-\" ; NUM = /[0-9]/ ; start = expr mark ; " + decls[perm[0]] + " " + decls[perm[1]] + " " + decls[perm[2]] + "\n"
					if si == 1 {
						text = strings.Replace(text, "PLUS = \"+\" ; MINUS = \"-\" ; ", "", 1)
					}
					names = append(names, fmt.Sprintf("orders/%d.%d.%d.%v", si, a, b, perm))
					texts = append(texts, text)
				}
			}
		}
	}
	return
}

func c12Orders(c *ctx) {
	names, texts := c12OrderTexts()
	for i := range texts {
		if c.mineIdx(i) {
			c12Check(c, names[i], texts[i])
		}
	}
}

func runC12(c *ctx) {
	c12Orders(c)
	r := c.rng("specs")
	n := c.n(4000, 120000)
	// a Spec handed out earlier must keep its levels while later specifications are parsed
	var heldSpec *spec.Spec
	var heldText, heldPrec string
	heldAge := 0
	for i := 0; i < n; i++ {
		g := genDirectiveSpec(r)
		semiMask := r.u64()
		toks := specTokens(g, func(k int) bool { return semiMask>>(uint(k)%60)&1 == 1 })
		text := layoutTokens(toks, r, layout{seps: sepVaried, finalNL: true, comments: r.chance(1, 5)})
		if !c.mine() {
			continue
		}
		c12Check(c, fmt.Sprintf("spec%d", i), text)
		if heldSpec != nil {
			heldAge++
			if heldAge >= 3 {
				var o specObs
				fillSpecObs(&o, heldSpec)
				c.count("held_specifications_re_read", 1)
				if now := renderPrec(o.Prec); now != heldPrec {
					c.violate(violation{Case: "held-levels", Input: heldText, Observed: "after three other specifications were parsed, its recorded levels read: " + now, Expected: "unchanged: " + heldPrec})
				}
				heldSpec = nil
			}
		} else if c.res.Evaluations%5 == 0 {
			if o := observeSpec(text); o.S != nil && len(o.Prec) > 0 {
				heldSpec, heldText, heldPrec, heldAge = o.S, text, renderPrec(o.Prec), 0
			}
		}
	}
}

// genDirectiveSpec: a well-formed specification whose interest is its directive list.
func genDirectiveSpec(r *rng) *rgrammar {
	nts := append([]string{"start"}, shuffled(r, wfNTPool)[:1+r.intn(3)]...)
	toks := shuffled(r, wfTokNames)[:r.intn(3)]
	strs := shuffled(r, wfStrPool)[:2+r.intn(5)]
	sg := &specGen{r: r, nts: nts, strs: strs, toks: toks, maxDepth: 1 + r.intn(2)}
	g := &rgrammar{Name: "g"}
	var other []rdecl
	sv := shuffled(r, wfTokStr)
	for i, t := range toks {
		if r.chance(1, 2) {
			other = append(other, rdecl{Kind: "token", Name: t, ValKind: "STRING", Value: sv[i]})
		} else {
			other = append(other, rdecl{Kind: "token", Name: t, ValKind: "REGEX", Value: wfTokRegex[(i+r.intn(3))%len(wfTokRegex)] + strings.Repeat("x", i)})
		}
	}
	declared := map[string]bool{}
	for _, n := range nts {
		if n == "start" || r.chance(3, 4) {
			other = append(other, rdecl{Kind: "rule", Rule: sg.rule(n)})
			declared[n] = true
		}
	}
	// directives
	nd := r.intn(9)
	var terms []rhandle
	for _, s := range strs {
		terms = append(terms, rhandle{Term: s, IsStr: true})
	}
	for _, t := range toks {
		terms = append(terms, rhandle{Term: t})
	}
	terms = shuffled(r, terms)
	var dirs []rdecl
	for i := 0; i < nd; i++ {
		d := rdecl{Kind: "directive", Assoc: pick(r, []string{"@left", "@right", "@none"})}
		for k := 1 + r.intn(3); k > 0; k-- {
			if r.chance(2, 5) {
				head := pick(r, nts)
				rl := &rrule{LHS: head}
				switch r.intn(6) {
				case 0:
					rl.RHS = catE(ntE(pick(r, nts)), ntE(pick(r, nts)))
				case 1:
					rl.RHS = altE(catE(ntE(pick(r, nts)), strE(pick(r, strs)), ntE(pick(r, nts))), catE(strE(pick(r, strs)), ntE(pick(r, nts))))
				case 2:
					rl.RHS = sg.expr(1 + r.intn(2))
				case 3:
					rl.RHS = catE(ntE(pick(r, nts)), wrapE(pick(r, []int{xGroup, xOpt, xStar, xPlus}), altE(strE(pick(r, strs)), ntE(pick(r, nts)))))
				case 4:
					rl.RHS = altE(ntE(pick(r, nts)), &rexpr{Kind: xEmpty})
				default:
					rl.RHS = nil
				}
				d.Handles = append(d.Handles, rhandle{IsRule: true, Rule: rl})
				declared[head] = true
				continue
			}
			if len(terms) > 0 {
				d.Handles = append(d.Handles, terms[0])
				if r.chance(1, 6) {
					d.Handles = append(d.Handles, terms[0]) // the same term twice on one line: still one handle
				}
				terms = terms[1:]
			}
		}
		if len(d.Handles) > 0 {
			dirs = append(dirs, d)
		}
	}
	// every non-terminal used must have a rule: declare the missing ones
	for _, n := range nts {
		if !declared[n] {
			other = append(other, rdecl{Kind: "rule", Rule: sg.rule(n)})
		}
	}
	// placement: before, between, after
	other = shuffled(r, other)
	switch r.intn(3) {
	case 0:
		g.Decls = append(append(g.Decls, dirs...), other...)
	case 1:
		g.Decls = append(append(g.Decls, other...), dirs...)
	default:
		// interleave, keeping the relative order of directives
		oi := 0
		for _, d := range dirs {
			for oi < len(other) && r.chance(1, 2) {
				g.Decls = append(g.Decls, other[oi])
				oi++
			}
			g.Decls = append(g.Decls, d)
		}
		g.Decls = append(g.Decls, other[oi:]...)
	}
	return g
}

package main

// R1 - reference reader of the EBNF specification language, written from docs/5-definitions.md (token table,
// grammar, precedence list) and the comment rules of docs/6-design.md. Independent of emerge's lexer/parser
// and of moorara/algo.
//
//   * scanner: product of per-token component automata, "run until dead, step back one, evaluate" discipline
//   * parser:  greedy recursive descent producing (a) the parse tree labelled with the documented productions,
//              (b) the post-order event list (token / production index), (c) the typed tree

import (
	"fmt"
	"strings"
)

// ------------------------------------------------------------------ scanner components

type scomp struct {
	name  string
	label string // token kind reported when accepting
	prio  int    // higher wins (keyword over identifier)
	step  func(s int, r rune) int
	acc   func(s int) bool
}

func rin(r rune, lo, hi rune) bool { return lo <= r && r <= hi }

func litComp(s string, label string, prio int) scomp {
	rs := []rune(s)
	return scomp{name: "lit:" + s, label: label, prio: prio,
		step: func(st int, r rune) int {
			if st >= 0 && st < len(rs) && rs[st] == r {
				return st + 1
			}
			return -1
		},
		acc: func(st int) bool { return st == len(rs) }}
}

var scanComps = buildScanComps()

func buildScanComps() []scomp {
	cs := []scomp{}
	for _, s := range []string{"=", ";", "|", "(", ")", "[", "]", "{", "}", "{{", "}}", "<", ">", "@left", "@right", "@none"} {
		cs = append(cs, litComp(s, s, 5))
	}
	cs = append(cs, litComp("grammar", "grammar", 9))
	upper := func(r rune) bool { return rin(r, 'A', 'Z') }
	upperTail := func(r rune) bool { return rin(r, 'A', 'Z') || rin(r, '0', '9') || r == '_' }
	lowerTail := func(r rune) bool { return rin(r, 'a', 'z') || rin(r, '0', '9') || r == '_' }
	cs = append(cs, scomp{name: "PREDEF", label: "PREDEF", prio: 5,
		step: func(s int, r rune) int {
			switch {
			case s == 0 && r == '$':
				return 1
			case s == 1 && upper(r):
				return 2
			case s == 2 && upperTail(r):
				return 2
			}
			return -1
		}, acc: func(s int) bool { return s == 2 }})
	cs = append(cs, scomp{name: "IDENT", label: "IDENT", prio: 5,
		step: func(s int, r rune) int {
			switch {
			case s == 0 && rin(r, 'a', 'z'):
				return 1
			case s == 1 && lowerTail(r):
				return 1
			}
			return -1
		}, acc: func(s int) bool { return s == 1 }})
	// TOKEN = [A-Z][0-9A-Z_]*  (state 1 = exactly one letter: the documents disagree whether that is a token -> masked)
	cs = append(cs, scomp{name: "TOKEN", label: "TOKEN", prio: 5,
		step: func(s int, r rune) int {
			switch {
			case s == 0 && upper(r):
				return 1
			case (s == 1 || s == 2) && upperTail(r):
				return 2
			}
			return -1
		}, acc: func(s int) bool { return s == 1 || s == 2 }})
	// STRING = "([\x21\x23-\x5B\x5D-\x7E]|\\[\x21-\x7E])+"
	cs = append(cs, scomp{name: "STRING", label: "STRING", prio: 5,
		step: func(s int, r rune) int {
			plain := r == 0x21 || rin(r, 0x23, 0x5B) || rin(r, 0x5D, 0x7E)
			switch s {
			case 0:
				if r == '"' {
					return 1
				}
			case 1, 3: // 1: just opened, 3: has >= 1 item
				if plain {
					return 3
				}
				if r == '\\' {
					return 2
				}
				if s == 3 && r == '"' {
					return 4
				}
			case 2:
				if rin(r, 0x21, 0x7E) {
					return 3
				}
			}
			return -1
		}, acc: func(s int) bool { return s == 4 }})
	// REGEX = /(item)+/ ; "//" and "/*" open comments (6-design), so the first item is neither '/' nor '*'
	cs = append(cs, scomp{name: "REGEX", label: "REGEX", prio: 5,
		step: func(s int, r rune) int {
			plain := rin(r, 0x20, 0x2E) || rin(r, 0x30, 0x5B) || rin(r, 0x5D, 0x7E)
			switch s {
			case 0:
				if r == '/' {
					return 1
				}
			case 1:
				if plain && r != '*' {
					return 3
				}
				if r == '\\' {
					return 2
				}
			case 3:
				if plain {
					return 3
				}
				if r == '\\' {
					return 2
				}
				if r == '/' {
					return 4
				}
			case 2:
				if rin(r, 0x20, 0x7E) {
					return 3
				}
			}
			return -1
		}, acc: func(s int) bool { return s == 4 }})
	cs = append(cs, scomp{name: "WS", label: "WS", prio: 5,
		step: func(s int, r rune) int {
			if (s == 0 || s == 1) && (r == ' ' || r == '\t') {
				return 1
			}
			return -1
		}, acc: func(s int) bool { return s == 1 }})
	cs = append(cs, scomp{name: "EOL", label: "EOL", prio: 5,
		step: func(s int, r rune) int {
			if (s == 0 || s == 1) && (r == '\n' || r == '\r') {
				return 1
			}
			return -1
		}, acc: func(s int) bool { return s == 1 }})
	cs = append(cs, scomp{name: "LINECOMMENT", label: "COMMENT", prio: 7,
		step: func(s int, r rune) int {
			switch {
			case s == 0 && r == '/':
				return 1
			case s == 1 && r == '/':
				return 2
			case s == 2 && (r == '\t' || rin(r, 0x20, 0x7E)):
				return 2
			}
			return -1
		}, acc: func(s int) bool { return s == 2 }})
	// block comment: ends at the FIRST "*/" (property statement)
	cs = append(cs, scomp{name: "BLOCKCOMMENT", label: "COMMENT", prio: 7,
		step: func(s int, r rune) int {
			ok := r == '\t' || r == '\n' || r == '\r' || rin(r, 0x20, 0x7E)
			switch s {
			case 0:
				if r == '/' {
					return 1
				}
			case 1:
				if r == '*' {
					return 2
				}
			case 2:
				if r == '*' {
					return 3
				}
				if ok {
					return 2
				}
			case 3:
				if r == '/' {
					return 4
				}
				if r == '*' {
					return 3
				}
				if ok {
					return 2
				}
			}
			return -1
		}, acc: func(s int) bool { return s == 4 }})
	return cs
}

// product state of the reference scanner
type svec []int

func (v svec) key() string {
	var b strings.Builder
	for _, x := range v {
		fmt.Fprintf(&b, "%d,", x)
	}
	return b.String()
}

func scanStart() svec { return make(svec, len(scanComps)) }

func scanStep(v svec, r rune) (svec, bool) {
	nv := make(svec, len(v))
	live := false
	for i, c := range scanComps {
		if v[i] < 0 {
			nv[i] = -1
			continue
		}
		nv[i] = c.step(v[i], r)
		if nv[i] >= 0 {
			live = true
		}
	}
	return nv, live
}

// scanStepInto is scanStep without allocation.
func scanStepInto(v, nv svec, r rune) bool {
	live := false
	for i := range scanComps {
		if v[i] < 0 {
			nv[i] = -1
			continue
		}
		nv[i] = scanComps[i].step(v[i], r)
		if nv[i] >= 0 {
			live = true
		}
	}
	return live
}

// scanLabel returns the token kind of a product state ("" = not accepting) and whether the verdict is a
// documented conflict (masked): the one-letter TOKEN.
func scanLabel(v svec) (label string, masked bool) {
	best, bp := "", -1
	for i, c := range scanComps {
		if v[i] >= 0 && c.acc(v[i]) && c.prio > bp {
			best, bp = c.label, c.prio
		}
	}
	for i, c := range scanComps {
		if c.name == "TOKEN" && v[i] == 1 {
			masked = true
		}
	}
	return best, masked
}

// ------------------------------------------------------------------ token stream

type rtok struct {
	Kind   string `json:"kind"`
	Lexeme string `json:"lexeme"`
	Off    int    `json:"off"`
	Line   int    `json:"line"`
	Col    int    `json:"col"`
}

type rscan struct {
	Toks   []rtok
	Err    bool // lexical error
	ErrOff int  // position of the first character of the stray / unterminated element
	ErrLn  int
	ErrCol int
	ErrTxt string // text of the element up to where the automaton stopped
	Masked bool   // a documented conflict was hit: no verdict
	EndOff int
	EndLn  int
	EndCol int
}

// refScan scans a whole text (valid UTF-8). Skipped kinds: WS, EOL, COMMENT.
func refScan(text string) rscan {
	rs := []rune(text)
	var out rscan
	off, line, col := 0, 1, 1
	i := 0
	v, nv := scanStart(), scanStart()
	for i < len(rs) {
		for k := range v {
			v[k] = 0
		}
		j := i
		for j < len(rs) {
			live := scanStepInto(v, nv, rs[j])
			if !live {
				break
			}
			v, nv = nv, v
			j++
		}
		lab, masked := scanLabel(v)
		if masked {
			out.Masked = true
			return out
		}
		if j == i || lab == "" {
			out.Err = true
			out.ErrOff, out.ErrLn, out.ErrCol = off, line, col
			out.ErrTxt = string(rs[i:j])
			return out
		}
		lex := string(rs[i:j])
		switch lab {
		case "WS", "EOL", "COMMENT":
		default:
			l := lex
			if lab == "STRING" || lab == "REGEX" {
				l = lex[1 : len(lex)-1]
			}
			out.Toks = append(out.Toks, rtok{lab, l, off, line, col})
		}
		for _, r := range rs[i:j] {
			off++
			if r == '\n' {
				line++
				col = 1
			} else {
				col++
			}
		}
		i = j
	}
	out.EndOff, out.EndLn, out.EndCol = off, line, col
	return out
}

// ------------------------------------------------------------------ parser (token level)

var tokenKinds = []string{"=", ";", "|", "(", ")", "[", "]", "{", "}", "{{", "}}", "<", ">",
	"grammar", "@left", "@right", "@none", "IDENT", "TOKEN", "STRING", "REGEX", "PREDEF"}

// documented productions, numbered as in emerge's table comments (the numbering itself is re-validated by C04)
type dprod struct {
	head string
	body []string
}

var docProds = []dprod{
	{"grammar", []string{"name", "decls"}},             // 0
	{"name", []string{"grammar", "IDENT", "semi_opt"}}, // 1
	{"decls", []string{"decls", "decl"}},               // 2
	{"decls", nil},                                     // 3
	{"decl", []string{"token", "semi_opt"}},            // 4
	{"decl", []string{"directive", "semi_opt"}},        // 5
	{"decl", []string{"rule", ";"}},                    // 6
	{"semi_opt", []string{";"}},                        // 7
	{"semi_opt", nil},                                  // 8
	{"token", []string{"TOKEN", "=", "STRING"}},        // 9
	{"token", []string{"TOKEN", "=", "REGEX"}},         // 10
	{"token", []string{"TOKEN", "=", "PREDEF"}},        // 11
	{"directive", []string{"@left", "handles"}},        // 12
	{"directive", []string{"@right", "handles"}},       // 13
	{"directive", []string{"@none", "handles"}},        // 14
	{"handles", []string{"handles", "term"}},           // 15
	{"handles", []string{"handles", "rule_handle"}},    // 16
	{"handles", []string{"term"}},                      // 17
	{"handles", []string{"rule_handle"}},               // 18
	{"rule_handle", []string{"<", "rule", ">"}},        // 19
	{"rule", []string{"lhs", "=", "rhs"}},              // 20
	{"rule", []string{"lhs", "="}},                     // 21
	{"lhs", []string{"nonterm"}},                       // 22
	{"rhs", []string{"rhs", "rhs"}},                    // 23
	{"rhs", []string{"(", "rhs", ")"}},                 // 24
	{"rhs", []string{"[", "rhs", "]"}},                 // 25
	{"rhs", []string{"{", "rhs", "}"}},                 // 26
	{"rhs", []string{"{{", "rhs", "}}"}},               // 27
	{"rhs", []string{"rhs", "|", "rhs"}},               // 28
	{"rhs", []string{"rhs", "|"}},                      // 29
	{"rhs", []string{"nonterm"}},                       // 30
	{"rhs", []string{"term"}},                          // 31
	{"nonterm", []string{"IDENT"}},                     // 32
	{"term", []string{"TOKEN"}},                        // 33
	{"term", []string{"STRING"}},                       // 34
}

type rnode struct {
	Prod int // production index, -1 for a leaf
	Tok  int // token index for a leaf
	Kids []*rnode
}

type rev struct {
	Tok  int // index into the token list, or -1
	Prod int // production index, or -1
}

type rparser struct {
	kinds []string
	pos   int
	evs   []rev
	err   int // index of the offending token (len(kinds) = end of input), -1 = none
}

type rstuck struct{}

func (p *rparser) next() string {
	if p.pos < len(p.kinds) {
		return p.kinds[p.pos]
	}
	return "$"
}
func (p *rparser) fail() { p.err = p.pos; panic(rstuck{}) }
func (p *rparser) eat(k string) *rnode {
	if p.next() != k {
		p.fail()
	}
	p.evs = append(p.evs, rev{p.pos, -1})
	n := &rnode{Prod: -1, Tok: p.pos}
	p.pos++
	return n
}
func (p *rparser) mk(i int, kids ...*rnode) *rnode {
	p.evs = append(p.evs, rev{-1, i})
	return &rnode{Prod: i, Tok: -1, Kids: kids}
}

func firstRhs(k string) bool {
	switch k {
	case "(", "[", "{", "{{", "IDENT", "TOKEN", "STRING":
		return true
	}
	return false
}

func (p *rparser) grammar() *rnode {
	g := p.eat("grammar")
	id := p.eat("IDENT")
	so := p.semiOpt()
	name := p.mk(1, g, id, so)
	decls := p.mk(3)
	for {
		var decl *rnode
		switch p.next() {
		case "TOKEN":
			t := p.eat("TOKEN")
			eq := p.eat("=")
			var tok *rnode
			switch p.next() {
			case "STRING":
				tok = p.mk(9, t, eq, p.eat("STRING"))
			case "REGEX":
				tok = p.mk(10, t, eq, p.eat("REGEX"))
			case "PREDEF":
				tok = p.mk(11, t, eq, p.eat("PREDEF"))
			default:
				p.fail()
			}
			decl = p.mk(4, tok, p.semiOpt())
		case "@left", "@right", "@none":
			k := p.next()
			kw := p.eat(k)
			hs := p.handles()
			var dir *rnode
			switch k {
			case "@left":
				dir = p.mk(12, kw, hs)
			case "@right":
				dir = p.mk(13, kw, hs)
			default:
				dir = p.mk(14, kw, hs)
			}
			decl = p.mk(5, dir, p.semiOpt())
		case "IDENT":
			r := p.rule()
			decl = p.mk(6, r, p.eat(";"))
		case "$":
			return p.mk(0, name, decls)
		default:
			p.fail()
		}
		decls = p.mk(2, decls, decl)
	}
}

func (p *rparser) semiOpt() *rnode {
	if p.next() == ";" {
		return p.mk(7, p.eat(";"))
	}
	return p.mk(8)
}

func (p *rparser) handles() *rnode {
	var hs *rnode
	for {
		var h *rnode
		isTerm := false
		switch p.next() {
		case "TOKEN":
			h = p.mk(33, p.eat("TOKEN"))
			isTerm = true
		case "STRING":
			h = p.mk(34, p.eat("STRING"))
			isTerm = true
		case "<":
			l := p.eat("<")
			r := p.rule()
			h = p.mk(19, l, r, p.eat(">"))
		default:
			if hs == nil {
				p.fail()
			}
			return hs
		}
		switch {
		case hs == nil && isTerm:
			hs = p.mk(17, h)
		case hs == nil:
			hs = p.mk(18, h)
		case isTerm:
			hs = p.mk(15, hs, h)
		default:
			hs = p.mk(16, hs, h)
		}
	}
}

func (p *rparser) rule() *rnode {
	nt := p.mk(32, p.eat("IDENT"))
	lhs := p.mk(22, nt)
	eq := p.eat("=")
	if firstRhs(p.next()) {
		rhs := p.alt()
		return p.mk(20, lhs, eq, rhs)
	}
	return p.mk(21, lhs, eq)
}

// alt: concat [ "|" ( alt | <nothing, then more "|"...> ) ]   -- "|" groups to the right; "rhs |" is the trailing form
func (p *rparser) alt() *rnode {
	l := p.concat()
	return p.altRest(l)
}

func (p *rparser) altRest(l *rnode) *rnode {
	if p.next() != "|" {
		return l
	}
	bar := p.eat("|")
	if firstRhs(p.next()) {
		r := p.alt()
		return p.mk(28, l, bar, r)
	}
	return p.altRest(p.mk(29, l, bar))
}

func (p *rparser) concat() *rnode {
	l := p.primary()
	for firstRhs(p.next()) {
		r := p.primary()
		l = p.mk(23, l, r)
	}
	return l
}

func (p *rparser) primary() *rnode {
	switch p.next() {
	case "(":
		o := p.eat("(")
		r := p.needRhs()
		return p.mk(24, o, r, p.eat(")"))
	case "[":
		o := p.eat("[")
		r := p.needRhs()
		return p.mk(25, o, r, p.eat("]"))
	case "{":
		o := p.eat("{")
		r := p.needRhs()
		return p.mk(26, o, r, p.eat("}"))
	case "{{":
		o := p.eat("{{")
		r := p.needRhs()
		return p.mk(27, o, r, p.eat("}}"))
	case "IDENT":
		return p.mk(30, p.mk(32, p.eat("IDENT")))
	case "TOKEN":
		return p.mk(31, p.mk(33, p.eat("TOKEN")))
	case "STRING":
		return p.mk(31, p.mk(34, p.eat("STRING")))
	}
	p.fail()
	return nil
}

func (p *rparser) needRhs() *rnode {
	if !firstRhs(p.next()) {
		p.fail()
	}
	return p.alt()
}

// refParseKinds parses a sequence of token kinds. errAt = -1 on success, else the index of the offending token
// (len(kinds) = unexpected end of input).
func refParseKinds(kinds []string) (root *rnode, evs []rev, errAt int) {
	p := &rparser{kinds: kinds, err: -1}
	func() {
		defer func() {
			if r := recover(); r != nil {
				if _, ok := r.(rstuck); !ok {
					panic(r)
				}
			}
		}()
		root = p.grammar()
	}()
	if p.err >= 0 {
		root = nil
	}
	return root, p.evs, p.err
}

// ------------------------------------------------------------------ typed tree

const (
	xConcat = iota
	xAlt
	xEmpty // the empty alternative written by a trailing "|"
	xGroup
	xOpt
	xStar
	xPlus
	xNonTerm
	xString // string literal terminal
	xToken  // named token terminal
)

type rexpr struct {
	Kind int
	Name string   // xNonTerm / xString / xToken
	Kids []*rexpr // operands in source order (concat / alt flattened)
	Tok  int      // first token index
}

type rhandle struct {
	IsRule bool
	Term   string // terminal text; for strings the lexeme, for tokens the name
	IsStr  bool
	Rule   *rrule
	Tok    int
}

type rrule struct {
	LHS string
	RHS *rexpr // nil = empty rule
	Tok int
}

type rdecl struct {
	Kind    string // "token" | "directive" | "rule"
	Tok     int
	Name    string // token name
	ValKind string // STRING | REGEX | PREDEF
	Value   string
	Assoc   string // @left | @right | @none
	Handles []rhandle
	Rule    *rrule
}

type rgrammar struct {
	Name  string
	Decls []rdecl
}

// typedTree converts the parse tree into the typed tree. Groups are kept as nodes (transparency is a
// normalisation applied by the comparisons that need it).
func typedTree(root *rnode, toks []rtok) *rgrammar {
	g := &rgrammar{}
	name := root.Kids[0]
	g.Name = toks[name.Kids[1].Tok].Lexeme
	var decls []*rnode
	for d := root.Kids[1]; d.Prod == 2; d = d.Kids[0] {
		decls = append(decls, d.Kids[1])
	}
	for i := len(decls) - 1; i >= 0; i-- {
		d := decls[i]
		switch d.Prod {
		case 4:
			t := d.Kids[0]
			vt := toks[t.Kids[2].Tok]
			g.Decls = append(g.Decls, rdecl{Kind: "token", Tok: t.Kids[0].Tok, Name: toks[t.Kids[0].Tok].Lexeme, ValKind: vt.Kind, Value: vt.Lexeme})
		case 5:
			dir := d.Kids[0]
			dd := rdecl{Kind: "directive", Tok: dir.Kids[0].Tok, Assoc: toks[dir.Kids[0].Tok].Kind}
			var hs []*rnode
			h := dir.Kids[1]
			for h.Prod == 15 || h.Prod == 16 {
				hs = append(hs, h.Kids[1])
				h = h.Kids[0]
			}
			hs = append(hs, h.Kids[0])
			for j := len(hs) - 1; j >= 0; j-- {
				x := hs[j]
				switch x.Prod {
				case 33:
					dd.Handles = append(dd.Handles, rhandle{Term: toks[x.Kids[0].Tok].Lexeme, Tok: x.Kids[0].Tok})
				case 34:
					dd.Handles = append(dd.Handles, rhandle{Term: toks[x.Kids[0].Tok].Lexeme, IsStr: true, Tok: x.Kids[0].Tok})
				case 19:
					dd.Handles = append(dd.Handles, rhandle{IsRule: true, Rule: typedRule(x.Kids[1], toks), Tok: x.Kids[0].Tok})
				}
			}
			g.Decls = append(g.Decls, dd)
		case 6:
			r := typedRule(d.Kids[0], toks)
			g.Decls = append(g.Decls, rdecl{Kind: "rule", Tok: r.Tok, Rule: r})
		}
	}
	return g
}

func typedRule(n *rnode, toks []rtok) *rrule {
	lhsTok := n.Kids[0].Kids[0].Kids[0].Tok
	r := &rrule{LHS: toks[lhsTok].Lexeme, Tok: lhsTok}
	if n.Prod == 20 {
		r.RHS = typedExpr(n.Kids[2], toks)
	}
	return r
}

func firstTok(n *rnode) int {
	for n.Prod >= 0 {
		if len(n.Kids) == 0 {
			return -1
		}
		n = n.Kids[0]
	}
	return n.Tok
}

func typedExpr(n *rnode, toks []rtok) *rexpr {
	switch n.Prod {
	case 23:
		l, r := typedExpr(n.Kids[0], toks), typedExpr(n.Kids[1], toks)
		e := &rexpr{Kind: xConcat, Tok: l.Tok}
		if l.Kind == xConcat {
			e.Kids = append(e.Kids, l.Kids...)
		} else {
			e.Kids = append(e.Kids, l)
		}
		if r.Kind == xConcat {
			e.Kids = append(e.Kids, r.Kids...)
		} else {
			e.Kids = append(e.Kids, r)
		}
		return e
	case 24, 25, 26, 27:
		k := map[int]int{24: xGroup, 25: xOpt, 26: xStar, 27: xPlus}[n.Prod]
		return &rexpr{Kind: k, Kids: []*rexpr{typedExpr(n.Kids[1], toks)}, Tok: n.Kids[0].Tok}
	case 28:
		l, r := typedExpr(n.Kids[0], toks), typedExpr(n.Kids[2], toks)
		e := &rexpr{Kind: xAlt, Tok: l.Tok}
		if l.Kind == xAlt {
			e.Kids = append(e.Kids, l.Kids...)
		} else {
			e.Kids = append(e.Kids, l)
		}
		if r.Kind == xAlt {
			e.Kids = append(e.Kids, r.Kids...)
		} else {
			e.Kids = append(e.Kids, r)
		}
		return e
	case 29:
		l := typedExpr(n.Kids[0], toks)
		e := &rexpr{Kind: xAlt, Tok: l.Tok}
		if l.Kind == xAlt {
			e.Kids = append(e.Kids, l.Kids...)
		} else {
			e.Kids = append(e.Kids, l)
		}
		e.Kids = append(e.Kids, &rexpr{Kind: xEmpty, Tok: n.Kids[1].Tok})
		return e
	case 30:
		t := n.Kids[0].Kids[0].Tok
		return &rexpr{Kind: xNonTerm, Name: toks[t].Lexeme, Tok: t}
	case 31:
		t := n.Kids[0].Kids[0].Tok
		if n.Kids[0].Prod == 34 {
			return &rexpr{Kind: xString, Name: toks[t].Lexeme, Tok: t}
		}
		return &rexpr{Kind: xToken, Name: toks[t].Lexeme, Tok: t}
	}
	panic(fmt.Sprintf("typedExpr: unexpected production %d", n.Prod))
}

// refRead scans and parses a specification text.
type rread struct {
	Scan   rscan
	Root   *rnode
	Events []rev
	ErrAt  int // token index of the syntax error (-1 none; len(toks) = end of input)
	Tree   *rgrammar
}

func refRead(text string) rread {
	var out rread
	out.Scan = refScan(text)
	out.ErrAt = -1
	if out.Scan.Masked {
		return out
	}
	kinds := make([]string, len(out.Scan.Toks))
	for i, t := range out.Scan.Toks {
		kinds[i] = t.Kind
	}
	root, evs, errAt := refParseKinds(kinds)
	out.Events = evs
	if out.Scan.Err {
		// a lexical error: the parser sees the tokens before it; if those already fail, the syntax error comes first
		if errAt >= 0 && errAt < len(kinds) {
			out.ErrAt = errAt
			out.Scan.Err = false // syntax error precedes the lexical one
		}
		return out
	}
	out.ErrAt = errAt
	if errAt < 0 {
		out.Root = root
		out.Tree = typedTree(root, out.Scan.Toks)
	}
	return out
}

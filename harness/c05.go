package main

// C05 - the EBNF scanner yields exactly the documented tokens, lexemes and positions.
//   (a) exhaustive transition monitor: every (scanner state, code point) pair of the coded table against the
//       reference product automaton (bisimulation grown from the start states, then checked on all of Unicode)
//   (b) stream monitor: NextToken streams of generated texts against the reference scanner

import (
	"errors"
	"fmt"
	"io"
	"strings"

	elex "github.com/gardenbed/emerge/internal/ebnf/lexer"
)

func init() {
	register(&property{
		id:    "C05",
		level: "exploration",
		rule: "(a) EVERY (reachable scanner state, code point U+0000..U+10FFFF) pair of the coded transition table is compared with the reference product automaton built from the documented token table and comment rules: same liveness, related successor, same token kind per state (keyword over identifier). " +
			"(b) NextToken streams (kind, lexeme, offset, line, column, final EOF or lexical error with its position) of generated texts - valid tokens of every kind, near-misses (unterminated string/pattern/comment, $x, @lef, gramma, grammars, lone @ $ \"), every separator/comment choice, patterns ending in \\/ and \\\\/, comments ending in **/ ***/ /*/, with and without final newline, every single token followed by every character class - against the reference scanner. " +
			"non-trivial = text has >= 3 significant tokens or ends in a lexical error; distinct by text. Masked (documents disagree): one-letter TOKEN.",
		assumptions: []string{
			"reference automaton = product of per-token automata transcribed from docs/5-definitions.md + comment rules of docs/6-design.md; block comments end at the first */ (property statement)",
			"'/*' and '//' open comments, so a pattern cannot start with '*' or be empty (6-design)",
			"texts are valid UTF-8 without NUL",
		},
		floorQuick: 10000, floorThorough: 100000,
		run: runC05,
	})
}

type etok struct {
	Kind   string `json:"kind"`
	Lexeme string `json:"lexeme"`
	Off    int    `json:"off"`
	Line   int    `json:"line"`
	Col    int    `json:"col"`
}

type escan struct {
	Toks  []etok
	Err   string // "" = clean EOF
	Panic string
}

const fileName = "in.ebnf"

// emergeScan runs the real lexer over a text.
func emergeScan(text string) escan {
	var out escan
	pv, stack := safely(func() {
		l, err := elex.New(fileName, strings.NewReader(text))
		if err != nil {
			out.Err = "New: " + err.Error()
			return
		}
		for n := 0; ; n++ {
			t, err := l.NextToken()
			if err != nil {
				if errors.Is(err, io.EOF) {
					return
				}
				out.Err = err.Error()
				return
			}
			out.Toks = append(out.Toks, etok{string(t.Terminal), t.Lexeme, t.Pos.Offset, t.Pos.Line, t.Pos.Column})
			if n > len(text)+10 {
				out.Err = "HARNESS: more tokens than characters (scanner does not advance)"
				return
			}
		}
	})
	if pv != nil {
		out.Panic = fmt.Sprintf("%v | %s", pv, firstLines(stack, 8))
	}
	return out
}

// compareScan returns "" when the observed stream equals the reference, else a description.
func compareScan(text string, ref rscan, got escan) (diff string, expected any) {
	if got.Panic != "" {
		return "", nil // C14's business; caller counts inconclusive
	}
	n := len(ref.Toks)
	for i := 0; i < n && i < len(got.Toks); i++ {
		r, g := ref.Toks[i], got.Toks[i]
		if r.Kind != g.Kind || r.Lexeme != g.Lexeme || r.Off != g.Off || r.Line != g.Line || r.Col != g.Col {
			return fmt.Sprintf("token #%d is %+v", i, g), r
		}
	}
	if len(got.Toks) > n {
		return fmt.Sprintf("extra token #%d %+v", n, got.Toks[n]), fmt.Sprintf("only %d tokens, then %s", n, refEnding(ref))
	}
	if len(got.Toks) < n {
		return fmt.Sprintf("stream ended after %d tokens with %q", len(got.Toks), orEOF(got.Err)), ref.Toks[len(got.Toks)]
	}
	if ref.Err {
		if got.Err == "" {
			return "clean end of input after " + fmt.Sprint(n) + " tokens", refEnding(ref)
		}
		want := fmt.Sprintf("%s:%d:%d", fileName, ref.ErrLn, ref.ErrCol)
		if !strings.Contains(got.Err, want) {
			return "error " + got.Err, refEnding(ref)
		}
		return "", nil
	}
	if got.Err != "" {
		return "error " + got.Err, "clean end of input"
	}
	return "", nil
}

func orEOF(s string) string {
	if s == "" {
		return "EOF"
	}
	return s
}

func refEnding(r rscan) string {
	if r.Err {
		return fmt.Sprintf("lexical error at %s:%d:%d (stray element %q)", fileName, r.ErrLn, r.ErrCol, r.ErrTxt)
	}
	return "end of input"
}

// scanTextSig classifies a text (input side) for known-finding attribution.
func scanTextSig(text string) string {
	return ""
}

// ---------------------------------------------------------------- text generator

var (
	genTokens = map[string][]string{
		"punct":   {"=", ";", "|", "(", ")", "[", "]", "{", "}", "{{", "}}", "<", ">"},
		"kw":      {"@left", "@right", "@none", "grammar"},
		"IDENT":   {"a", "start", "x_1", "gramma", "grammars", "grammar_", "g", "gr", "left", "z9_", "expr"},
		"TOKEN":   {"ID", "NUM_1", "T_", "AB", "X9"},
		"PREDEF":  {"$WS", "$ID", "$A_1", "$NUMBER", "$X9"},
		"STRING":  {`"a"`, `"if"`, `"+"`, `"a\"b"`, `"\\"`, `"/*"`, `"//"`, `"x\ny"`, `"!#~"`, `"{{"`, `"\""`, `"\"hi\""`, `"x\"\""`, `"\\\""`, `"\"\\"`, `"a\/"`},
		"REGEX":   {`/a/`, `/[0-9]+/`, `/a\/b/`, `/\\/`, `/a\\/`, `/ x /`, `/a|b*/`, `/[^"]/`, `/\//`, `/a\/\/b/`, `/x*/`},
		"comment": {"//", "// c", "//x/*y*/", "/**/", "/*/ note */", "/*//////*/", "/*/ | x /*/", "/* \\*\\* */", "/**\\**/", "/* *\\/ x */", "/* c */", "/* a\n b */", "/* x **/", "/***/", "/*/*/", "/* * / */", "/*\t*/", "//\t\"q"},
		"sep":     {" ", "\t", "\n", "\r\n", "  ", "\n\n", " \t "},
		"near": {`"`, `"abc`, `"a b"`, `""`, `/`, `/abc`, `//`, `/*`, `/* x`, `/* x *`, `$`, `$x`, `$1`, `@`, `@lef`, `@lefty`, `@rightx`, `@non`, `#`, `%`, `&`, `'`, `~`, "`", `!`, `*`, `+`, `,`, `-`, `.`, `:`, `?`, `\`, `^`, `_`,
			"é", "€", "😀", "\x7f", "\x01", "\f", "\v", "\uFEFF", "\u00A0", "\u2028", "\u200B", `"é"`, `/é/`, "// é", "/* é */",
			"\uFFFD", "\uFFFC", "\uFFFE", "\uFFFF", "\U0010FFFF", "\u0080", "\u07FF", "\u0800", "\uD7FF", "\uE000", "\U00010000", "\"\uFFFD\"", "/\uFFFD/", "// \uFFFD", "/* \uFFFD */", "a\uFFFD", "\"x\uFFFDy\"", "A", "A1", "1", "9a", "_a"},
	}
	genKinds = []string{"punct", "kw", "IDENT", "TOKEN", "PREDEF", "STRING", "REGEX", "comment"}
)

func genScanText(r *rng, maxElems int, allowNear bool) string {
	var b strings.Builder
	n := 1 + r.intn(maxElems)
	for i := 0; i < n; i++ {
		k := pick(r, genKinds)
		tok := pick(r, genTokens[k])
		if allowNear && r.chance(1, 7) {
			tok = pick(r, genTokens["near"])
		}
		b.WriteString(tok)
		// separator (sometimes none: adjacency is where maximal munch matters)
		switch {
		case r.chance(1, 4):
		case r.chance(1, 6):
			b.WriteString(pick(r, genTokens["comment"]))
			if r.chance(1, 2) {
				b.WriteString("\n")
			}
		default:
			b.WriteString(pick(r, genTokens["sep"]))
		}
	}
	return b.String()
}

func runC05(c *ctx) {
	// ---------------- (a) exhaustive transition monitor
	if haveLexShim {
		c05Transitions(c)
	} else {
		c.note("export shim unavailable: exhaustive transition monitor skipped, stream monitor only")
		c.exhaustive("scanner_state_x_all_code_points", false)
	}

	check := func(name, text string) {
		c.eval()
		ref := refScan(text)
		if ref.Masked {
			c.masked()
			return
		}
		got := emergeScan(text)
		if got.Panic != "" {
			c.inconclusive("panic (C14's business)")
			c.note("panic on %q: %s", text, got.Panic)
			return
		}
		c.count("tokens_observed", int64(len(got.Toks)))
		for _, t := range got.Toks {
			c.setAdd("token_kinds_observed", t.Kind)
		}
		if len(ref.Toks) >= 3 || ref.Err {
			c.nontrivial(text)
		}
		if ref.Err {
			c.count("texts_ending_in_lexical_error", 1)
		}
		if d, exp := compareScan(text, ref, got); d != "" {
			c.violate(violation{Sig: scanTextSig(text), Case: name, Input: text, Observed: d, Expected: exp})
		}
		if c.res.Evaluations%499 == 3 {
			c.sample(map[string]any{"text": text, "tokens": got.Toks, "end": orEOF(got.Err)})
		}
	}

	// ---------------- (b1) every single token x every following character class, with and without final newline
	followers := []string{"", " ", "\t", "\n", "\r", "a", "g", "A", "0", "_", "=", ";", "|", "(", ")", "[", "]", "{", "}", "<", ">", "$", "@", "\"", "/", "*", "\\", "#", "é", "//", "/*", "/**/", "{", "}"}
	for _, k := range []string{"punct", "kw", "IDENT", "TOKEN", "PREDEF", "STRING", "REGEX", "comment", "near", "sep"} {
		for _, t := range genTokens[k] {
			for _, f := range followers {
				for _, tail := range []string{"", "\n", " x", " x\n"} {
					if !c.mine() {
						continue
					}
					check("single", t+f+tail)
				}
			}
		}
	}
	c.exhaustive("each_sample_token_x_each_follower_class_x_4_tails", true)
	// pairs of tokens with every separator choice
	var all []string
	for _, k := range genKinds {
		all = append(all, genTokens[k]...)
	}
	seps := append([]string{""}, genTokens["sep"]...)
	seps = append(seps, "/**/", "//\n", "/* x */")
	if c.thorough() {
		for _, a := range all {
			for _, b := range all {
				for _, s := range seps {
					if c.mine() {
						check("pair", a+s+b)
					}
				}
			}
		}
		c.exhaustive("all_pairs_of_sample_tokens_x_separators", true)
	}
	// ---------------- (b1'') code points that are neither tokens nor separators as the VERY FIRST code point of the text
	for i, lead := range []string{"\uFEFF", "\u00A0", "\u2028", "\u200B", "\x7f", "\x01", "\f", "\v", "é", "\uFFFE", "\uFEFF\uFEFF"} {
		for j, rest := range []string{"", "grammar g;", " grammar g;\nstart = \"a\";\n", "\n\nstart"} {
			if c.mine() {
				check(fmt.Sprintf("lead%d.%d", i, j), lead+rest)
			}
		}
	}
	// ---------------- (b1') long texts: every alignment of tokens against the reader's buffer boundaries
	{
		lr := c.rng("long")
		body := ""
		for len(body) < 300 {
			body += genScanText(lr, 6, false) + " "
		}
		var pads []int
		for _, base := range []int{2048, 4096, 6144, 8192, 12288, 16384} {
			lo, hi := base-c.n(70, 300), base+c.n(20, 60)
			for p := lo; p <= hi; p++ {
				pads = append(pads, p)
			}
		}
		for _, p := range pads {
			for variant, pad := range []string{strings.Repeat(" ", p), "/*" + strings.Repeat("x", max(0, p-4)) + "*/", strings.Repeat("ab \n", p/4) + strings.Repeat(" ", p%4)} {
				if !c.mine() {
					continue
				}
				check(fmt.Sprintf("long/pad%d/%d", p, variant), pad+body)
				c.count("long_texts_scanned", 1)
			}
		}
		// long composed specifications shifted byte by byte
		long := ""
		for len(long) < 13000 {
			long += genScanText(lr, 8, false) + "\n"
		}
		for shift := 0; shift < c.n(48, 400); shift++ {
			for _, size := range []int{5800, 9000, 12800} {
				if c.mine() {
					check(fmt.Sprintf("long/shift%d/%d", shift, size), strings.Repeat(" ", shift)+long[:size]+" x")
					c.count("long_texts_scanned", 1)
				}
			}
		}
	}
	// ---------------- (b2) seeded random assemblies
	r := c.rng("texts")
	n := c.n(40000, 10000000)
	for i := 0; i < n; i++ {
		text := genScanText(r, 8, i%2 == 0)
		if i%3 == 0 {
			text += "\n"
		}
		if !c.mine() {
			continue
		}
		check(fmt.Sprintf("rand%d", i), text)
	}
}

// c05Transitions: bisimulation between emerge's coded DFA (through the export shim) and the reference product automaton.
func c05Transitions(c *ctx) {
	type pair struct {
		e int
		v svec
	}
	rel := map[int]svec{0: scanStart()}
	access := map[int]string{0: ""}
	queue := []pair{{0, scanStart()}}
	// phase 1: discover the reachable part over ASCII + a handful of other code points
	probe := []rune{}
	for r := rune(0); r < 0x100; r++ {
		probe = append(probe, r)
	}
	probe = append(probe, 0x100, 0x7FF, 0x800, 0xFFFF, 0x10000, 0x10FFFF, 0xEEEE)
	for len(queue) > 0 {
		p := queue[0]
		queue = queue[1:]
		for _, r := range probe {
			en := lexAdvance(p.e, r)
			if en < 0 {
				continue
			}
			if _, ok := rel[en]; ok {
				continue
			}
			rv, _ := scanStep(p.v, r)
			rel[en] = rv
			access[en] = access[p.e] + string(r)
			queue = append(queue, pair{en, rv})
		}
	}
	c.count("scanner_states_reached", int64(len(rel))/int64(c.of)+0)
	// labels (every shard would repeat: shard 0 only)
	if c.shard == 0 {
		for e, v := range rel {
			if e == 0 {
				continue
			}
			c.eval()
			el := lexEvalState(e)
			if el == "ERR" {
				el = ""
			}
			rl, masked := scanLabel(v)
			c.setAdd("scanner_states", fmt.Sprint(e))
			if masked {
				c.masked()
				continue
			}
			if el != rl {
				c.violate(violation{Case: "state-label", Input: map[string]any{"state": e, "access_string": access[e]},
					Observed: fmt.Sprintf("state %d (reached by %q) yields token kind %q", e, access[e], el), Expected: fmt.Sprintf("%q", rl)})
			}
			c.nontrivial(fmt.Sprintf("label/%d", e))
		}
	}
	// phase 2: every (state, code point) pair, sharded by code point
	const maxR = 0x10FFFF
	var pairs int64
	for e, v := range rel {
		for r := rune(c.shard); r <= maxR; r += rune(c.of) {
			pairs++
			en := lexAdvance(e, r)
			rv, live := scanStep(v, r)
			if (en >= 0) != live {
				c.violate(violation{Case: "transition", Input: map[string]any{"state": e, "access_string": access[e], "code_point": fmt.Sprintf("%U", r)},
					Observed: fmt.Sprintf("state %d on %U goes to %d", e, r, en), Expected: fmt.Sprintf("reference automaton alive=%v after %q + %U", live, access[e], r)})
				continue
			}
			if en < 0 {
				continue
			}
			want, ok := rel[en]
			if !ok {
				c.violate(violation{Case: "transition", Input: map[string]any{"state": e, "code_point": fmt.Sprintf("%U", r)},
					Observed: fmt.Sprintf("state %d on %U reaches state %d, which no ASCII text reaches", e, r, en), Expected: "a state of the documented automaton"})
				continue
			}
			if want.key() != rv.key() {
				c.violate(violation{Case: "transition", Input: map[string]any{"state": e, "access_string": access[e], "code_point": fmt.Sprintf("%U", r)},
					Observed: fmt.Sprintf("state %d on %U goes to state %d (which stands for the text %q)", e, r, en, access[en]),
					Expected: fmt.Sprintf("a state equivalent to having read %q", access[e]+string(r))})
			}
		}
	}
	c.evalN(pairs)
	c.count("state_codepoint_pairs_checked", pairs)
	c.nontrivial("transition-table")
	c.exhaustive("scanner_state_x_all_code_points", true)
	// also: states outside the table must be dead for everything (sampled on ASCII)
	for _, e := range []int{-1, 55, 56, 60, 100} {
		for r := rune(0); r < 128; r++ {
			if c.shard == 0 && lexAdvance(e, r) >= 0 {
				if _, reach := rel[e]; !reach {
					c.note("unreachable state %d has a transition on %U (harmless)", e, r)
				}
			}
		}
	}
}

package main

// C07 - a specification is rejected iff it is ill-formed, the diagnostics name problems that are present, and
// for accepted specifications every terminal of the grammar has exactly one definition.

import (
	"fmt"
	"regexp"
	"sort"
	"strconv"
	"strings"

	ebnfparser "github.com/gardenbed/emerge/internal/ebnf/parser"
)

func init() {
	register(&property{
		id:    "C07",
		level: "exploration",
		rule: "well-formed base specifications (every declaration kind, any order, tokens before/after use, directives anywhere) x every subset of <= 2 (quick) / <= 3 (thorough) of eight defect kinds (token used but undefined, token defined twice, two terminals with equal value, unknown $NAME, invalid pattern, non-terminal without rule, no start, handle in two levels) x placements, plus seeded larger mixes. " +
			"The set of defects PRESENT is recomputed from the text by the reference reader (not from the injection labels). rejected <=> set non-empty; the error text of spec.Parse (and of Spec.DFA for patterns) is parsed into claims (kind+subject): every claim must be a defect that is present and at least one claim must be made; " +
			"on acceptance Spec.Definitions must contain exactly one definition per terminal of the grammar with the right kind and value (literal -> itself, token -> declared string/pattern, predefined -> documented pattern) and nothing else. non-trivial = >= 2 rules and >= 1 token declaration; distinct by text.",
		assumptions: []string{
			"a token whose only declaration names an unknown $NAME counts as undefined as well (either diagnostic is accepted)",
			"diagnostics about other things (overlapping patterns, LALR conflicts) are classified by shape and ignored here",
			"a string literal whose text equals a declared token's NAME is a separate family with its own signature",
		},
		floorQuick: 2000, floorThorough: 30000,
		run: runC07,
	})
}

type defectSet struct {
	undefTok  map[string]bool
	multiTok  map[string]bool
	sameValue map[string]bool // the shared value
	badPredef map[string]bool
	badPat    map[string]bool // token names with invalid patterns
	noRuleNT  map[string]bool
	noStart   bool
	twoLevels bool
	// bookkeeping
	terminals   map[string]defObs // expected definitions on acceptance, by terminal name
	litTokClash bool
}

func (d *defectSet) empty() bool {
	return len(d.undefTok)+len(d.multiTok)+len(d.sameValue)+len(d.badPredef)+len(d.badPat)+len(d.noRuleNT) == 0 && !d.noStart && !d.twoLevels
}

func (d *defectSet) String() string {
	var xs []string
	add := func(k string, m map[string]bool) {
		if len(m) > 0 {
			var ks []string
			for x := range m {
				ks = append(ks, x)
			}
			sort.Strings(ks)
			xs = append(xs, fmt.Sprintf("%s%q", k, ks))
		}
	}
	add("undefined-token", d.undefTok)
	add("token-defined-twice", d.multiTok)
	add("equal-values", d.sameValue)
	add("unknown-predefined", d.badPredef)
	add("invalid-pattern", d.badPat)
	add("non-terminal-without-rule", d.noRuleNT)
	if d.noStart {
		xs = append(xs, "no-start-rule")
	}
	if d.twoLevels {
		xs = append(xs, "handle-in-two-levels")
	}
	if len(xs) == 0 {
		return "none (well-formed)"
	}
	return strings.Join(xs, ", ")
}

// patternInvalid: not a sentence of the documented pattern grammar, or grammatical but meaningless.
func patternInvalid(p string) bool {
	if p == "" || !isPatternSentence(p) {
		return true
	}
	_, sem, err := parsePattern(p)
	if err == nil && sem {
		return true
	}
	// a repetition count that no machine integer holds cannot be honoured: such a pattern is not usable either
	for _, m := range reCount.FindAllStringSubmatch(p, -1) {
		for _, d := range m[1:] {
			if d == "" {
				continue
			}
			if _, perr := strconv.ParseInt(d, 10, 64); perr != nil {
				return true
			}
		}
	}
	return false
}

func defectsOf(g *rgrammar) *defectSet {
	d := &defectSet{undefTok: map[string]bool{}, multiTok: map[string]bool{}, sameValue: map[string]bool{}, badPredef: map[string]bool{}, badPat: map[string]bool{}, noRuleNT: map[string]bool{}, terminals: map[string]defObs{}}
	type tdef struct {
		value   string
		isRegex bool
	}
	tokDefs := map[string][]tdef{}
	tokDeclared := map[string]bool{}
	for _, dc := range g.Decls {
		if dc.Kind != "token" {
			continue
		}
		tokDeclared[dc.Name] = true
		switch dc.ValKind {
		case "STRING":
			tokDefs[dc.Name] = append(tokDefs[dc.Name], tdef{dc.Value, false})
		case "REGEX":
			tokDefs[dc.Name] = append(tokDefs[dc.Name], tdef{dc.Value, true})
			if patternInvalid(dc.Value) {
				d.badPat[dc.Name] = true
			}
		case "PREDEF":
			if v, ok := ebnfparser.Predefs[dc.Value]; ok && documentedPredefs[dc.Value] {
				tokDefs[dc.Name] = append(tokDefs[dc.Name], tdef{v, true})
			} else {
				d.badPredef[dc.Value] = true
			}
		}
	}
	usedTok, usedLit, usedNT, ruleOf := map[string]bool{}, map[string]bool{}, map[string]bool{}, map[string]bool{}
	var walk func(e *rexpr)
	walk = func(e *rexpr) {
		if e == nil {
			return
		}
		switch e.Kind {
		case xToken:
			usedTok[e.Name] = true
		case xString:
			usedLit[e.Name] = true
		case xNonTerm:
			usedNT[e.Name] = true
		}
		for _, k := range e.Kids {
			walk(k)
		}
	}
	for _, r := range allRules(g) {
		ruleOf[r.LHS] = true
		walk(r.RHS)
	}
	handleLevel := map[string]int{}
	li := 0
	for _, dc := range g.Decls {
		if dc.Kind != "directive" {
			continue
		}
		local := map[string]bool{}
		for _, h := range dc.Handles {
			switch {
			case h.IsRule:
				for _, a := range distribute(h.Rule.RHS) {
					local["p:"+h.Rule.LHS+"→"+a] = true
				}
			case h.IsStr:
				usedLit[h.Term] = true
				local["t:"+h.Term] = true
			default:
				usedTok[h.Term] = true
				local["t:"+h.Term] = true
			}
		}
		for k := range local {
			if prev, ok := handleLevel[k]; ok && prev != li {
				d.twoLevels = true
			}
			handleLevel[k] = li
		}
		li++
	}
	for t := range usedTok {
		if len(tokDefs[t]) == 0 {
			d.undefTok[t] = true
		}
	}
	for t, defs := range tokDefs {
		if len(defs) > 1 {
			d.multiTok[t] = true
		}
	}
	for l := range usedLit {
		if tokDeclared[l] || usedTok[l] {
			d.litTokClash = true
		}
	}
	// values of singly-defined terminals
	byValue := map[string][]string{}
	for l := range usedLit {
		byValue[l] = append(byValue[l], "lit:"+l)
		d.terminals[l] = defObs{l, l, false}
	}
	for t, defs := range tokDefs {
		if len(defs) == 1 {
			byValue[defs[0].value] = append(byValue[defs[0].value], "tok:"+t)
			d.terminals[t] = defObs{t, defs[0].value, defs[0].isRegex}
		}
	}
	for v, who := range byValue {
		if len(who) > 1 {
			d.sameValue[v] = true
		}
	}
	for n := range usedNT {
		if !ruleOf[n] {
			d.noRuleNT[n] = true
		}
	}
	if !ruleOf["start"] {
		d.noStart = true
	}
	return d
}

var documentedPredefs = map[string]bool{"$WS": true, "$DIGIT": true, "$LETTER": true, "$ID": true, "$NUMBER": true, "$STRING": true, "$COMMENT": true}

type claim struct {
	kind    string
	subject string
	line    string
}

var (
	reNoDef     = regexp.MustCompile(`no definition for terminal (.+)$`)
	reMultiDef  = regexp.MustCompile(`multiple definitions for terminal (.+):$`)
	reSameVal   = regexp.MustCompile(`multiple definitions with the same value: (".*")$`)
	reBadPredef = regexp.MustCompile(`invalid predefined regex: (\S+)$`)
	reNoRuleNT  = regexp.MustCompile(`no production rule for non-terminal symbol (\S+)$`)
	reNTNotIn   = regexp.MustCompile(`non-terminal symbol (\S+) not in the set of non-terminal symbols$`)
	reTwoLevels = regexp.MustCompile(`appeared in more than one precedence level$`)
	reBadPat    = regexp.MustCompile(`^(.+?): (?:invalid regular expression|invalid character range|invalid repetition range)`)
	rePosLine   = regexp.MustCompile(`^\s*(?:<nil>|` + regexp.QuoteMeta(fileName) + `:\d+:\d+)(: .*)?$`)
)

func unq(s string) string {
	if u, err := strconv.Unquote(s); err == nil {
		return u
	}
	return s
}

// parseClaims turns an error text into claims; unknown lines are returned separately.
func parseClaims(msg string) (claims []claim, unknown []string) {
	for _, raw := range strings.Split(msg, "\n") {
		line := strings.TrimSpace(raw)
		line = strings.TrimLeft(line, "•*- \t")
		if line == "" || rePosLine.MatchString(line) {
			continue
		}
		switch {
		case reNoDef.MatchString(line):
			claims = append(claims, claim{"undef", unq(reNoDef.FindStringSubmatch(line)[1]), line})
		case reMultiDef.MatchString(line):
			claims = append(claims, claim{"multi", unq(reMultiDef.FindStringSubmatch(line)[1]), line})
		case reSameVal.MatchString(line):
			claims = append(claims, claim{"samevalue", unq(reSameVal.FindStringSubmatch(line)[1]), line})
		case reBadPredef.MatchString(line):
			claims = append(claims, claim{"predef", reBadPredef.FindStringSubmatch(line)[1], line})
		case strings.Contains(line, "missing production rule with the start symbol"), strings.Contains(line, "no production rule for start symbol"), strings.Contains(line, "start symbol start not in the set"):
			claims = append(claims, claim{"nostart", "", line})
		case reNoRuleNT.MatchString(line):
			claims = append(claims, claim{"nont", reNoRuleNT.FindStringSubmatch(line)[1], line})
		case reNTNotIn.MatchString(line):
			claims = append(claims, claim{"nont", reNTNotIn.FindStringSubmatch(line)[1], line})
		case reTwoLevels.MatchString(line):
			claims = append(claims, claim{"twolevels", "", line})
		case reBadPat.MatchString(line):
			claims = append(claims, claim{"badpattern", unq(reBadPat.FindStringSubmatch(line)[1]), line})
		case strings.HasSuffix(line, "error occurred:") || strings.HasSuffix(line, "errors occurred:"):
		default:
			unknown = append(unknown, line)
		}
	}
	return
}

func (d *defectSet) supports(cl claim) bool {
	switch cl.kind {
	case "undef":
		return d.undefTok[cl.subject]
	case "multi":
		return d.multiTok[cl.subject]
	case "samevalue":
		return d.sameValue[cl.subject]
	case "predef":
		return d.badPredef[cl.subject]
	case "nostart":
		return d.noStart
	case "nont":
		return d.noRuleNT[cl.subject] || (cl.subject == "start" && d.noStart)
	case "twolevels":
		return d.twoLevels
	case "badpattern":
		return d.badPat[cl.subject]
	}
	return false
}

func c07Check(c *ctx, name, text string) {
	c.eval()
	rd := refRead(text)
	if rd.Scan.Masked {
		c.masked()
		return
	}
	if rd.Tree == nil {
		c.inconclusive("generator produced an invalid text (harness)")
		at := ""
		if rd.ErrAt >= 0 && rd.ErrAt < len(rd.Scan.Toks) {
			at = fmt.Sprintf("syntax error at token #%d %+v after %+v", rd.ErrAt, rd.Scan.Toks[rd.ErrAt], rd.Scan.Toks[max(0, rd.ErrAt-3):rd.ErrAt])
		} else if rd.Scan.Err {
			at = fmt.Sprintf("lexical error %q", rd.Scan.ErrTxt)
		}
		c.note("invalid generated text (%s)", at)
		return
	}
	ds := defectsOf(rd.Tree)
	sig := ""
	if ds.litTokClash {
		sig = "literal-text-equals-token-name"
	}
	nRules, nTok := 0, 0
	for _, d := range rd.Tree.Decls {
		if d.Kind == "rule" {
			nRules++
		}
		if d.Kind == "token" {
			nTok++
		}
	}
	if nRules >= 2 && nTok >= 1 {
		c.nontrivial(text)
	}
	o := observeSpec(text)
	if o.Panic != "" {
		if ds.empty() {
			c.violate(violation{Sig: sig, Case: name, Input: text, Observed: "panic: " + o.Panic, Expected: "well-formed specification: accepted"})
		} else {
			c.inconclusive("panic (C14's business)")
		}
		return
	}
	c.setAdd("defect_sets_seen", ds.String())
	bad := func(obs, exp string) {
		c.violate(violation{Sig: sig, Case: name, Input: text, Observed: obs, Expected: exp, Note: "defects present per the reference reader: " + ds.String()})
	}
	// rejection at parse time
	msg := o.Err
	stage := "spec.Parse"
	if msg == "" {
		// patterns are validated when the scanner automaton is built
		var dfaErr error
		pv, _ := safely(func() { _, _, dfaErr = o.S.DFA() })
		if pv != nil {
			c.inconclusive("panic in Spec.DFA (C14's business)")
			return
		}
		if dfaErr != nil {
			cl, _ := parseClaims(dfaErr.Error())
			for _, x := range cl {
				if x.kind == "badpattern" {
					msg, stage = dfaErr.Error(), "Spec.DFA"
				}
			}
		}
	}
	if msg == "" {
		c.count("accepted", 1)
		if !ds.empty() {
			bad("accepted by spec.Parse (and no pattern complaint from Spec.DFA)", "rejected: "+ds.String())
			return
		}
		if ds.litTokClash {
			bad("accepted, with ONE terminal standing for both the string literal and the token of the same name", "the literal defines itself (its own characters) and the token carries its declared definition: two terminals")
			return
		}
		// one definition per terminal, with the right kind and value
		got := map[string]defObs{}
		for _, d := range o.Defs {
			if _, dup := got[d.Terminal]; dup {
				bad(fmt.Sprintf("two definitions for terminal %q in Spec.Definitions", d.Terminal), "exactly one")
				return
			}
			got[d.Terminal] = d
		}
		for _, t := range o.Terms {
			want, ok := ds.terminals[t]
			if !ok {
				bad(fmt.Sprintf("grammar has terminal %q", t), "only the literals used and the tokens declared: "+fmt.Sprint(keysOf(ds.terminals)))
				return
			}
			g, ok := got[t]
			if !ok {
				bad(fmt.Sprintf("terminal %q of the grammar has no definition", t), fmt.Sprintf("%+v", want))
				return
			}
			if g != want {
				bad(fmt.Sprintf("definition of %q is %+v", t, g), fmt.Sprintf("%+v", want))
				return
			}
		}
		for t := range got {
			if _, ok := ds.terminals[t]; !ok {
				bad(fmt.Sprintf("definition for %q, which is not a terminal the text defines or uses", t), "no such definition")
				return
			}
		}
		for t := range ds.terminals {
			if _, ok := got[t]; !ok {
				bad(fmt.Sprintf("no definition for %q", t), fmt.Sprintf("%+v", ds.terminals[t]))
				return
			}
		}
		c.count("definitions_checked", int64(len(got)))
		return
	}
	c.count("rejected", 1)
	if ds.empty() {
		bad(stage+" rejected it: "+firstLines(msg, 6), "accepted: the specification is well-formed")
		return
	}
	claims, unknown := parseClaims(msg)
	if len(unknown) > 0 {
		c.inconclusive("unclassified diagnostic line")
		c.note("unclassified diagnostic %q in: %q", unknown[0], firstLines(msg, 8))
		return
	}
	if len(claims) == 0 {
		bad(stage+" rejected it without naming a problem: "+firstLines(msg, 6), "at least one of: "+ds.String())
		return
	}
	for _, cl := range claims {
		c.setAdd("claim_kinds_seen", cl.kind)
		if !ds.supports(cl) {
			bad("diagnostic names a problem that is not present: "+cl.line, "only problems that are present: "+ds.String())
			return
		}
	}
	if c.res.Evaluations%257 == 3 {
		c.sample(map[string]any{"text": text, "defects_present": ds.String(), "diagnostics": firstLines(msg, 6)})
	}
}

func keysOf(m map[string]defObs) []string {
	var ks []string
	for k := range m {
		ks = append(ks, k)
	}
	sort.Strings(ks)
	return ks
}

// ---------------------------------------------------------------- defect injection

type injector func(r *rng, g *rgrammar, variant int)

func firstRule(g *rgrammar, r *rng) *rrule {
	var rs []*rrule
	for _, d := range g.Decls {
		if d.Kind == "rule" {
			rs = append(rs, d.Rule)
		}
	}
	return rs[r.intn(len(rs))]
}

func appendToRule(rl *rrule, e *rexpr) {
	if rl.RHS == nil {
		rl.RHS = e
		return
	}
	rl.RHS = catE(wrapIfAlt(rl.RHS), e)
}

func wrapIfAlt(e *rexpr) *rexpr {
	if e.Kind == xAlt {
		return wrapE(xGroup, e)
	}
	return e
}

func insertDecl(r *rng, g *rgrammar, d rdecl, variant int) {
	pos := 0
	switch variant % 3 {
	case 0:
		pos = 0
	case 1:
		pos = len(g.Decls)
	default:
		pos = r.intn(len(g.Decls) + 1)
	}
	g.Decls = append(g.Decls[:pos], append([]rdecl{d}, g.Decls[pos:]...)...)
}

var injectors = []struct {
	name string
	f    injector
}{
	{"undefined-token", func(r *rng, g *rgrammar, v int) {
		if v%2 == 0 {
			appendToRule(firstRule(g, r), tokE(fmt.Sprintf("UNDEF_%d", v)))
		} else {
			insertDecl(r, g, rdecl{Kind: "directive", Assoc: "@left", Handles: []rhandle{{Term: fmt.Sprintf("UNDEF_%d", v)}}}, v)
		}
	}},
	{"token-defined-twice", func(r *rng, g *rgrammar, v int) {
		insertDecl(r, g, rdecl{Kind: "token", Name: "TWICE", ValKind: "STRING", Value: "tw1"}, v)
		insertDecl(r, g, rdecl{Kind: "token", Name: "TWICE", ValKind: pick(r, []string{"STRING", "REGEX"}), Value: "tw2"}, v+1)
		if v%2 == 0 {
			appendToRule(firstRule(g, r), tokE("TWICE"))
		}
	}},
	{"equal-values", func(r *rng, g *rgrammar, v int) {
		switch v % 3 {
		case 0: // literal vs string token
			appendToRule(firstRule(g, r), strE("same"))
			insertDecl(r, g, rdecl{Kind: "token", Name: "SAME_A", ValKind: "STRING", Value: "same"}, v)
		case 1: // two pattern tokens with the same text
			insertDecl(r, g, rdecl{Kind: "token", Name: "SAME_B", ValKind: "REGEX", Value: "q[0-9]+"}, v)
			insertDecl(r, g, rdecl{Kind: "token", Name: "SAME_C", ValKind: "REGEX", Value: "q[0-9]+"}, v+1)
		default: // a literal and a pattern with the same text, with other definitions sorting between them
			appendToRule(firstRule(g, r), catE(strE("zz"), strE("zzz")))
			insertDecl(r, g, rdecl{Kind: "token", Name: "SAME_D", ValKind: "REGEX", Value: "zz"}, v)
		}
	}},
	{"unknown-predefined", func(r *rng, g *rgrammar, v int) {
		insertDecl(r, g, rdecl{Kind: "token", Name: "PRE_X", ValKind: "PREDEF", Value: pick(r, []string{"$NOPE", "$IDENT", "$COMENT", "$W"})}, v)
		switch v % 3 {
		case 0: // used
			appendToRule(firstRule(g, r), tokE("PRE_X"))
		case 1: // never referenced
		default: // also has one proper definition elsewhere
			insertDecl(r, g, rdecl{Kind: "token", Name: "PRE_X", ValKind: "STRING", Value: "prex"}, v+1)
		}
	}},
	{"invalid-pattern", func(r *rng, g *rgrammar, v int) {
		insertDecl(r, g, rdecl{Kind: "token", Name: "BADPAT", ValKind: "REGEX", Value: pick(r, []string{"a{3,2}", "[b-a]", "a)", "(", "x[", "a{2", "+a", "a||b", `\q`, ":]", "end}", "a]b}c", "]", "}", "x]", "{", "a|", "?", "a{9223372036854775808,5}", "[0-9]{9223372036854775809,1}", "[9-0", "[z-a]+*", "a{4,2}(", "(x{3,1}", "[b-a", "x{3,1})", "[^9-0"})}, v)
		if v%2 == 0 {
			appendToRule(firstRule(g, r), tokE("BADPAT"))
		}
	}},
	{"non-terminal-without-rule", func(r *rng, g *rgrammar, v int) {
		if v%2 == 0 {
			appendToRule(firstRule(g, r), ntE(fmt.Sprintf("nowhere_%d", v)))
		} else {
			insertDecl(r, g, rdecl{Kind: "directive", Assoc: "@none", Handles: []rhandle{{IsRule: true, Rule: &rrule{LHS: "start", RHS: catE(ntE("start"), ntE("nowhere_h"))}}}}, v)
		}
	}},
	{"no-start", func(r *rng, g *rgrammar, v int) {
		var rename func(e *rexpr)
		rename = func(e *rexpr) {
			if e == nil {
				return
			}
			if e.Kind == xNonTerm && e.Name == "start" {
				e.Name = "begin"
			}
			for _, k := range e.Kids {
				rename(k)
			}
		}
		for _, rl := range allRules(g) {
			if rl.LHS == "start" {
				rl.LHS = "begin"
			}
			rename(rl.RHS)
		}
	}},
	{"handle-in-two-levels", func(r *rng, g *rgrammar, v int) {
		if v%3 == 2 {
			// a rule handle containing a group, listed in two levels, with the same alternatives used earlier under
			// another operator (the rules come BEFORE the directives)
			alts := func() *rexpr { return altE(strE("hp"), strE("hm")) }
			op := pick(r, []int{xOpt, xStar, xPlus})
			early := rdecl{Kind: "rule", Rule: &rrule{LHS: "start", RHS: catE(ntE("start"), wrapE(op, alts()), ntE("start"))}}
			g.Decls = append([]rdecl{early}, g.Decls...)
			h := func() rhandle {
				return rhandle{IsRule: true, Rule: &rrule{LHS: "start", RHS: catE(ntE("start"), wrapE(xGroup, alts()), ntE("start"))}}
			}
			g.Decls = append(g.Decls, rdecl{Kind: "directive", Assoc: "@left", Handles: []rhandle{h()}}, rdecl{Kind: "directive", Assoc: "@right", Handles: []rhandle{h()}})
			return
		}
		if v%2 == 0 {
			appendToRule(firstRule(g, r), strE("hh"))
			insertDecl(r, g, rdecl{Kind: "directive", Assoc: "@left", Handles: []rhandle{{Term: "hh", IsStr: true}}}, v)
			insertDecl(r, g, rdecl{Kind: "directive", Assoc: "@right", Handles: []rhandle{{Term: "hh", IsStr: true}}}, v+1)
		} else {
			h := func() rhandle {
				return rhandle{IsRule: true, Rule: &rrule{LHS: "start", RHS: catE(ntE("start"), ntE("start"))}}
			}
			insertDecl(r, g, rdecl{Kind: "directive", Assoc: "@left", Handles: []rhandle{h()}}, v)
			insertDecl(r, g, rdecl{Kind: "directive", Assoc: "@left", Handles: []rhandle{h()}}, v+1)
		}
	}},
}

func cloneGrammar(g *rgrammar) *rgrammar {
	var ce func(e *rexpr) *rexpr
	ce = func(e *rexpr) *rexpr {
		if e == nil {
			return nil
		}
		n := &rexpr{Kind: e.Kind, Name: e.Name}
		for _, k := range e.Kids {
			n.Kids = append(n.Kids, ce(k))
		}
		return n
	}
	out := &rgrammar{Name: g.Name}
	for _, d := range g.Decls {
		nd := d
		nd.Handles = nil
		for _, h := range d.Handles {
			nh := h
			if h.Rule != nil {
				nh.Rule = &rrule{LHS: h.Rule.LHS, RHS: ce(h.Rule.RHS)}
			}
			nd.Handles = append(nd.Handles, nh)
		}
		if d.Rule != nil {
			nd.Rule = &rrule{LHS: d.Rule.LHS, RHS: ce(d.Rule.RHS)}
		}
		out.Decls = append(out.Decls, nd)
	}
	return out
}

func runC07(c *ctx) {
	r := c.rng("bases")
	nBases := c.n(30, 60)
	maxSubset := c.n(2, 3)
	var bases []*rgrammar
	for i := 0; i < nBases; i++ {
		bases = append(bases, genWellFormedSpec(r, wfOpts{nNT: 1 + r.intn(3), nTok: 1 + r.intn(3), nStr: 2 + r.intn(4), nExtraRules: r.intn(3), nDirectives: r.intn(3), depth: 1 + r.intn(3), ruleHandles: r.chance(1, 2)}))
	}
	render := func(g *rgrammar, rr *rng) string {
		semiMask := rr.u64()
		return layoutTokens(specTokens(g, func(k int) bool { return semiMask>>(uint(k)%60)&1 == 1 }), rr, layout{seps: sepVaried, finalNL: true})
	}
	// subsets of defect kinds
	var subsets [][]int
	var rec func(start int, pre []int)
	rec = func(start int, pre []int) {
		subsets = append(subsets, append([]int{}, pre...))
		if len(pre) == maxSubset {
			return
		}
		for i := start; i < len(injectors); i++ {
			rec(i+1, append(pre, i))
		}
	}
	rec(0, nil)
	for bi, base := range bases {
		for si, sub := range subsets {
			for variant := 0; variant < 3; variant++ {
				if len(sub) == 0 && variant > 0 {
					continue
				}
				rr := newRng(c.seed, fmt.Sprintf("C07/%d/%d/%d", bi, si, variant))
				g := cloneGrammar(base)
				for _, k := range sub {
					injectors[k].f(rr, g, variant)
				}
				if c.mine() {
					c07Check(c, fmt.Sprintf("base%d/defects%v/v%d", bi, sub, variant), render(g, rr))
				}
			}
		}
	}
	c.exhaustive(fmt.Sprintf("bases_x_all_subsets_of_le_%d_defect_kinds_x_3_placements", maxSubset), true)
	// a literal whose text equals a declared token's name (separate signature)
	for i, text := range []string{
		"grammar g; ID = /[a-z]+/; start = ID \"ID\" ;\n",
		"grammar g; start = \"KW\" KW ; KW = \"kw\" ;\n",
		"grammar g; start = \"NUM\" ; NUM = $NUMBER\n",
	} {
		if c.mine() {
			c07Check(c, fmt.Sprintf("litclash%d", i), text)
		}
	}
	// well-formed specifications of many shapes (acceptance and the one-definition-per-terminal clause)
	r3 := c.rng("wellformed")
	for i := 0; i < c.n(6000, 300000); i++ {
		g := genWellFormedSpec(r3, wfOpts{nNT: 1 + r3.intn(4), nTok: r3.intn(5), nStr: 1 + r3.intn(6), nExtraRules: r3.intn(4), nDirectives: r3.intn(4), depth: 1 + r3.intn(4), ruleHandles: r3.chance(1, 2)})
		if c.mine() {
			c07Check(c, fmt.Sprintf("wf%d", i), render(g, r3))
		}
	}
	// seeded larger mixes
	r2 := c.rng("mixes")
	for i := 0; i < c.n(1200, 60000); i++ {
		g := cloneGrammar(bases[r2.intn(len(bases))])
		for k := 0; k < 1+r2.intn(4); k++ {
			injectors[r2.intn(len(injectors))].f(r2, g, r2.intn(6))
		}
		if c.mine() {
			c07Check(c, fmt.Sprintf("mix%d", i), render(g, r2))
		}
	}
}

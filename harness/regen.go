package main

// Generators of pattern trees (shared by C02, C03, C09, C10, C14).

import (
	"fmt"
	"strings"
)

type reGenCfg struct {
	atoms  []*reNode
	quants []quant
}

func mkq(kind string, lo, hi, form int, lazy bool) quant {
	return quant{kind: kind, lo: lo, hi: hi, form: form, lazy: lazy}
}

var (
	qOpt  = mkq("?", 0, 0, 0, false)
	qStar = mkq("*", 0, 0, 0, false)
	qPlus = mkq("+", 0, 0, 0, false)
)

func allQuants() []quant {
	qs := []quant{qOpt, qStar, qPlus,
		mkq("{", 0, 0, 0, false), mkq("{", 1, 1, 0, false), mkq("{", 2, 2, 0, false),
		mkq("{", 0, -1, 1, false), mkq("{", 1, -1, 1, false), mkq("{", 2, -1, 1, false),
		mkq("{", 0, 1, 2, false), mkq("{", 1, 2, 2, false), mkq("{", 2, 3, 2, false), mkq("{", 0, 2, 2, false), mkq("{", 1, 1, 2, false),
	}
	n := len(qs)
	for i := 0; i < n; i++ {
		l := qs[i]
		l.lazy = true
		qs = append(qs, l)
	}
	return qs
}

func smallQuants() []quant {
	return []quant{qOpt, qStar, qPlus, mkq("{", 0, 0, 0, false), mkq("{", 2, 2, 0, false), mkq("{", 1, -1, 1, false),
		mkq("{", 0, 1, 2, false), mkq("{", 1, 2, 2, false), mkq("*", 0, 0, 0, true), mkq("{", 0, 2, 2, true)}
}

func lit(c rune) *reNode { return leaf(string(c), rsOf(c)) }

func narrowAtoms() []*reNode {
	return []*reNode{lit('a'), lit('b'),
		leaf("[ab]", rsOf('a', 'b')), leaf("[a-b]", rsRange('a', 'b')), leaf("[^a]", rsNegASCII(rsOf('a'))), leaf(".", rsASCII)}
}

// enumerator of expression trees by size, respecting the documented grammar.
type reEnum struct {
	cfg   reGenCfg
	items map[int][]*reNode
	subs  map[int][]*reNode
	exprs map[int][]*reNode
}

func newReEnum(cfg reGenCfg) *reEnum {
	return &reEnum{cfg: cfg, items: map[int][]*reNode{}, subs: map[int][]*reNode{}, exprs: map[int][]*reNode{}}
}

func (e *reEnum) item(n int) []*reNode {
	if n < 1 {
		return nil
	}
	if v, ok := e.items[n]; ok {
		return v
	}
	var out []*reNode
	if n == 1 {
		out = append(out, e.cfg.atoms...)
	}
	if n == 2 {
		for _, a := range e.cfg.atoms {
			for _, q := range e.cfg.quants {
				out = append(out, quantified(a, q))
			}
		}
	}
	for _, x := range e.expr(n - 1) {
		out = append(out, group(x, quant{}))
	}
	for _, x := range e.expr(n - 2) {
		for _, q := range e.cfg.quants {
			out = append(out, group(x, q))
		}
	}
	e.items[n] = out
	return out
}

// sub(n): concatenations of >= 1 items with total size n
func (e *reEnum) sub(n int) []*reNode {
	if n < 1 {
		return nil
	}
	if v, ok := e.subs[n]; ok {
		return v
	}
	var out []*reNode
	out = append(out, e.item(n)...)
	for first := 1; first < n; first++ {
		for _, h := range e.item(first) {
			for _, t := range e.sub(n - first) {
				var kids []*reNode
				kids = append(kids, h)
				if t.kind == rCat {
					kids = append(kids, t.kids...)
				} else {
					kids = append(kids, t)
				}
				out = append(out, cat(kids...))
			}
		}
	}
	e.subs[n] = out
	return out
}

func (e *reEnum) expr(n int) []*reNode {
	if n < 1 {
		return nil
	}
	if v, ok := e.exprs[n]; ok {
		return v
	}
	var out []*reNode
	out = append(out, e.sub(n)...)
	for l := 1; l <= n-2; l++ {
		for _, a := range e.sub(l) {
			for _, b := range e.expr(n - 1 - l) {
				out = append(out, alt(a, b))
			}
		}
	}
	e.exprs[n] = out
	return out
}

// hex escape text for a code point in the documented forms
func hexEsc(r rune) string {
	if r <= 0xFF {
		return fmt.Sprintf(`\x%02X`, r)
	}
	if r <= 0xFFFF {
		return fmt.Sprintf(`\x%04X`, r)
	}
	return fmt.Sprintf(`\x%06X`, r)
}

// individualAtoms: every class and escape, bare and inside brackets (negated or not), plus ranges.
func individualAtoms() []*reNode {
	var out []*reNode
	for _, cn := range classNames {
		out = append(out, leaf(cn, classSet[cn]))
		out = append(out, leaf("["+cn+"]", classSet[cn]))
		out = append(out, leaf("[^"+cn+"]", rsNegASCII(classSet[cn])))
		out = append(out, leaf("[a"+cn+"]", rsUnion(rsOf('a'), classSet[cn])))
	}
	for _, pn := range posixNames {
		out = append(out, leaf(pn, posixSet[pn]))
		out = append(out, leaf("["+pn+"]", posixSet[pn]))
		out = append(out, leaf("[^"+pn+"]", rsNegASCII(posixSet[pn])))
		out = append(out, leaf("["+pn+"_]", rsUnion(posixSet[pn], rsOf('_'))))
	}
	for _, m := range reMetaChars {
		out = append(out, leaf(`\`+string(m), rsOf(m)))
		out = append(out, leaf(`[\`+string(m)+`]`, rsOf(m)))
		out = append(out, leaf(`[^\`+string(m)+`]`, rsNegASCII(rsOf(m))))
	}
	// every printable unescaped character as a literal
	for c := rune(0x20); c <= 0x7E; c++ {
		if !strings.ContainsRune(reMetaChars, c) && c != '^' { // a leading '^' is the start anchor: not an unambiguous literal
			out = append(out, leaf(string(c), rsOf(c)))
		}
	}
	// hex escapes: ASCII, Latin-1, BMP, astral
	for _, r := range []rune{0x01, 0x09, 0x0A, 0x20, 0x41, 0x7E, 0x7F, 0x80, 0xE9, 0xFF, 0x0100, 0x03A9, 0xD7FF, 0xE000, 0xEEED, 0xEEEE, 0xEEEF, 0xF8FF, 0xFFFD, 0xFFFE, 0xFFFF, 0x10000, 0x1F600, 0xF0000, 0x10FFFD, 0x10FFFF} {
		out = append(out, leaf(hexEsc(r), rsOf(r)))
		if r > 0xFF || true {
			out = append(out, leaf("["+hexEsc(r)+"]", rsOf(r)))
		}
	}
	// 4-digit form of an ASCII char
	out = append(out, leaf(`\x0041`, rsOf('A')), leaf(`\x00000041`, rsOf('A')))
	// ranges
	out = append(out,
		leaf("[a-z]", rsRange('a', 'z')), leaf("[0-9A-Fa-f]", posixSet["[:xdigit:]"]), leaf("[^0-9]", rsNegASCII(rsDigit)),
		leaf(`[\x20-\x7E]`, rsRange(0x20, 0x7E)), leaf(`[\x21\x23-\x5B\x5D-\x7E]`, rsUnion(rsOf(0x21), rsRange(0x23, 0x5B), rsRange(0x5D, 0x7E))),
		leaf(`[\x0100-\x0110]`, rsRange(0x100, 0x110)), leaf(`[\xEEE0-\xEEF0]`, rsRange(0xEEE0, 0xEEF0)), leaf(`[a-a]`, rsOf('a')), leaf(`[!-/]`, rsRange('!', '/')),
		leaf(`[\x09\x0A\x0D\x20]`, rsOf(9, 10, 13, 32)),
		leaf(`[^a-z0-9]`, rsNegASCII(rsUnion(rsRange('a', 'z'), rsDigit))),
		leaf(`[\x01-\x7F]`, rsASCII), leaf(".", rsASCII),
		// ranges that overlap the surrogate block
		leaf(`[\xD7FE-\xE001]`, rsRange(0xD7FE, 0xE001)), leaf(`[\xD800-\xD802]`, rsRange(0xD800, 0xD802)), leaf(`[\xDFFE-\xE000]`, rsRange(0xDFFE, 0xE000)), leaf(`[\xD800\xD801]`, rsOf(0xD800, 0xD801)),
		// negated groups that list characters beyond ASCII, and DEL at the edge of the 7-bit table
		leaf(`[^\x0100]`, rsNegASCII(rsOf())), leaf(`[^a\x0100]`, rsNegASCII(rsOf('a'))), leaf(`[^\x0370-\x0373z]`, rsNegASCII(rsOf('z'))),
		leaf(`[^0-9\x00E9\x4E2D-\x4E2F]`, rsNegASCII(rsDigit)), leaf(`[^\x7F]`, rsNegASCII(rsOf(0x7F))), leaf(`[^\x01-\x1F\x7F]`, rsNegASCII(rsUnion(rsRange(1, 0x1F), rsOf(0x7F)))),
		leaf(`[^\x40-\x7F]`, rsNegASCII(rsRange(0x40, 0x7F))), leaf(`[^\x7E-\x80]`, rsNegASCII(rsRange(0x7E, 0x7F))), leaf(`[\x7F]`, rsOf(0x7F)), leaf(`[\x7E-\x80]`, rsRange(0x7E, 0x80)),
	)
	return out
}

// contexts wraps an atom in the documented contexts (bare, quantified, next to literals, in alternation).
func atomContexts(a *reNode) []*reNode {
	x, y := lit('x'), lit('y')
	out := []*reNode{
		a,
		cat(x, a, y),
		quantified(a, qStar),
		cat(x, quantified(a, qOpt), y),
		cat(quantified(a, qPlus), y),
		alt(a, x),
		group(alt(a, x), mkq("{", 2, 2, 0, false)),
		cat(x, quantified(a, mkq("{", 1, 2, 2, false))),
	}
	return out
}

// safeForHexFollow reports whether printing k right after a \xHH escape would be read as more hex digits.
func startsWithHexDigit(s string) bool {
	return len(s) > 0 && isHexU(rune(s[0]))
}

// randomRe builds a seeded random tree. budget limits the estimated automaton size.
type reRand struct {
	r      *rng
	atoms  []*reNode
	wide   []*reNode
	quants []quant
	budget int
}

func (g *reRand) atom(underRep bool) *reNode {
	if !underRep && g.r.chance(1, 6) && g.budget > 200 {
		g.budget -= 150
		return pick(g.r, g.wide)
	}
	g.budget -= 2
	return pick(g.r, g.atoms)
}

func (g *reRand) expr(depth int, underRep bool) *reNode {
	l := g.sub(depth, underRep)
	if g.r.chance(1, 3) && g.budget > 0 {
		return alt(l, g.expr(depth, underRep))
	}
	return l
}

func (g *reRand) sub(depth int, underRep bool) *reNode {
	n := 1 + g.r.intn(3)
	var kids []*reNode
	for i := 0; i < n; i++ {
		kids = append(kids, g.item(depth, underRep))
		if g.budget <= 0 {
			break
		}
	}
	// avoid a hex-digit literal directly after a \xHH leaf (would be read as a longer escape)
	for i := 1; i < len(kids); i++ {
		if strings.HasPrefix(lastText(kids[i-1]), `\x`) && startsWithHexDigit(kids[i].print()) {
			kids[i] = group(kids[i], quant{})
		}
		// a '-' right after a ']' reads as the start of a range "]-x" for a greedy reader: not an unambiguous form
		if strings.HasSuffix(kids[i-1].print(), "]") && strings.HasPrefix(kids[i].print(), "-") {
			kids[i] = group(kids[i], quant{})
		}
	}
	if len(kids) == 1 {
		return kids[0]
	}
	return cat(kids...)
}

func lastText(n *reNode) string {
	if n.kind == rLeaf {
		return n.text
	}
	return ""
}

func (g *reRand) item(depth int, underRep bool) *reNode {
	if depth > 0 && g.r.chance(2, 5) && g.budget > 0 {
		q := quant{}
		rep := underRep
		if g.r.chance(3, 5) {
			q = pick(g.r, g.quants)
			rep = true
			g.budget -= 10
		}
		inner := g.expr(depth-1, rep)
		if q.kind == "{" {
			_, hi := q.bounds()
			lo, _ := q.bounds()
			m := hi
			if m < lo {
				m = lo + 1
			}
			g.budget -= m * 10
		}
		return group(inner, q)
	}
	a := g.atom(underRep)
	if g.r.chance(2, 5) {
		q := pick(g.r, g.quants)
		if a.wide && q.kind == "{" {
			q = qStar
		}
		return quantified(a, q)
	}
	return a
}

// estSize estimates the number of automaton positions after repetition ranges are expanded.
func estSize(n *reNode) int {
	switch n.kind {
	case rLeaf:
		if n.wide {
			return 12
		}
		return 1
	case rCat, rAlt:
		t := 0
		for _, k := range n.kids {
			t += estSize(k)
		}
		return t
	default:
		lo, hi := n.q.bounds()
		m := hi
		if hi < 0 {
			m = lo + 1
		}
		if m < 1 {
			m = 1
		}
		return m * estSize(n.kids[0])
	}
}

func randomPatterns(r *rng, n int) []*reNode {
	atoms := []*reNode{lit('a'), lit('b'), lit('c'), lit('0'), leaf("[ab]", rsOf('a', 'b')), leaf("[a-c]", rsRange('a', 'c')),
		leaf(`\.`, rsOf('.')), leaf("[0-9]", rsDigit), leaf(`\x41`, rsOf('A')), leaf(`\x0100`, rsOf(0x100)), leaf("-", rsOf('-')), leaf("_", rsOf('_'))}
	wide := []*reNode{leaf(".", rsASCII), leaf(`\w`, rsWord), leaf(`\D`, classSet[`\D`]), leaf(`\S`, classSet[`\S`]), leaf(`\W`, classSet[`\W`]),
		leaf("[:alpha:]", posixSet["[:alpha:]"]), leaf("[^a]", rsNegASCII(rsOf('a'))), leaf("[:xdigit:]", posixSet["[:xdigit:]"]), leaf(`\s`, rsSpaceS), leaf(`\d`, rsDigit)}
	var out []*reNode
	for len(out) < n {
		g := &reRand{r: r, atoms: atoms, wide: wide, quants: allQuants(), budget: 60}
		t := g.expr(1+r.intn(3), false)
		if estSize(t) > 40 {
			continue
		}
		out = append(out, t)
	}
	return out
}

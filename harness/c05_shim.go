//go:build verif

package main

import elex "github.com/gardenbed/emerge/internal/ebnf/lexer"

const haveLexShim = true

func lexAdvance(s int, r rune) int { return elex.VerifAdvanceDFA(s, r) }
func lexEvalState(s int) string    { return elex.VerifEvalState(s) }

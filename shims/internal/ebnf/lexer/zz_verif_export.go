//go:build verif

package lexer

import "github.com/moorara/algo/lexer"

type verifFakeInput struct{}

func (verifFakeInput) Next() (rune, error)              { return 0, nil }
func (verifFakeInput) Retract()                          {}
func (verifFakeInput) Lexeme() (string, lexer.Position) { return "xx", lexer.Position{} }
func (verifFakeInput) Skip() lexer.Position             { return lexer.Position{} }

// VerifAdvanceDFA exposes the coded transition table.
func VerifAdvanceDFA(s int, r rune) int { return advanceDFA(s, r) }

// VerifEvalState exposes the accepting-state table (terminal attributed to a state).
func VerifEvalState(s int) string {
	l := &Lexer{in: verifFakeInput{}}
	return string(l.evalDFA(s).Terminal)
}

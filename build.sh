#!/usr/bin/env bash
# Rebuilds the harness (and the CLI) from the CURRENT working tree of $VERIF_REPO.
# The harness is compiled *into* the emerge module through a build overlay; nothing is written under the repo.
set -eu
ID="${1:-all}"
V="$(cd "$(dirname "$0")" && pwd)"
export VERIF_HOME="$V"
R="${VERIF_REPO:-/repo}"
export GOFLAGS=-mod=mod GOPROXY=off
unset GOSUMDB GOTOOLCHAIN 2>/dev/null || true
mkdir -p "$V/bin" "$V/build" "$V/work"
exec 9>"$V/build/.lock"; flock 9
OV="$V/build/overlay.$(echo "$R" | md5sum | cut -c1-8).json"
gen_overlay() { # $1 = extra tag suffix (noshim => omit shims)
  {
    echo '{ "Replace": {'
    first=1
    for f in "$V"/harness/*.go; do
      [ $first = 1 ] || echo ','
      first=0
      printf '  "%s/internal/zzverif/%s": "%s"' "$R" "$(basename "$f")" "$f"
    done
    if [ "${1:-}" != noshim ]; then
      (cd "$V/shims" && find . -name '*.go' | sed 's|^\./||') | while read -r s; do
        echo ','
        printf '  "%s/%s": "%s/shims/%s"' "$R" "$s" "$V" "$s"
      done
    fi
    echo
    echo '} }'
  } > "$OV"
}
build() { # $1 out, rest = extra flags
  out="$1"; shift
  (cd "$R" && go build "$@" -overlay "$OV" -o "$out" ./internal/zzverif)
}
gen_overlay
if ! build "$V/bin/vh" -tags verif 2> "$V/build/build.err"; then
  # Degradation rule: a refactoring that breaks a shim must not turn into an alarm.
  gen_overlay noshim
  if ! build "$V/bin/vh" -tags verif_noshim 2> "$V/build/build2.err"; then
    cat "$V/build/build.err" "$V/build/build2.err" >&2
    exit 1
  fi
  echo "NOTE: shim build failed, using black-box fallback (verif_noshim)" >&2
  TAGS=verif_noshim
else
  TAGS=verif
fi
if [ "$ID" = C17 ] || [ "$ID" = all ]; then
  build "$V/bin/vh-race" -race -tags "$TAGS" 2> "$V/build/build-race.err" || { cat "$V/build/build-race.err" >&2; exit 1; }
fi
(cd "$R" && go build -o "$V/bin/emerge" ./cmd/emerge)
if [ "$ID" = C04 ] || [ "$ID" = all ]; then
  (cd "$R" && go build -o "$V/bin/ebnfgen" ./internal/ebnf/parser/generate)
fi
